package api

import (
	"unsafe"

	"github.com/mlange-42/ark/ecs"

	"verif/mc/ct"
)

// ---------------------------------------------------------------- ID-based mapper

type unsafeMapper struct {
	env *Env
	cs  []ct.Comp
	ids []ecs.ID
}

// NewUnsafeMapper creates a Mapper using the ID-based API only.
// Batch methods are not available in the ID-based API and panic.
func NewUnsafeMapper(env *Env, cs []ct.Comp) Mapper {
	return &unsafeMapper{env: env, cs: cs, ids: env.IDList(cs)}
}

func (m *unsafeMapper) Comps() []ct.Comp { return m.cs }

func (m *unsafeMapper) ptrs(e ecs.Entity) []unsafe.Pointer {
	u := m.env.W.Unsafe()
	out := make([]unsafe.Pointer, len(m.cs))
	for i, id := range m.ids {
		if u.Has(e, id) {
			out[i] = u.Get(e, id)
		}
	}
	return out
}

func (m *unsafeMapper) write(e ecs.Entity, vals []int64) {
	p := m.ptrs(e)
	for i, c := range m.cs {
		ct.Write(c, p[i], vals[i])
	}
}

func (m *unsafeMapper) NewEntity(vals []int64, rels []RelArg) ecs.Entity {
	u := m.env.W.Unsafe()
	var e ecs.Entity
	if len(rels) == 0 {
		e = u.NewEntity(m.ids...)
	} else {
		e = u.NewEntityRel(m.ids, m.env.relsUnsafe(rels)...)
	}
	m.write(e, vals)
	return e
}

func (m *unsafeMapper) NewEntityFn(fn func([]unsafe.Pointer), rels []RelArg) ecs.Entity {
	u := m.env.W.Unsafe()
	var e ecs.Entity
	if len(rels) == 0 {
		e = u.NewEntity(m.ids...)
	} else {
		e = u.NewEntityRel(m.ids, m.env.relsUnsafe(rels)...)
	}
	if fn != nil {
		fn(m.ptrs(e))
	}
	return e
}

func (m *unsafeMapper) NewBatch(int, []int64, []RelArg) { panic("unsupported: no ID-based batch API") }
func (m *unsafeMapper) NewBatchFn(int, func(ecs.Entity, []unsafe.Pointer), []RelArg) {
	panic("unsupported: no ID-based batch API")
}
func (m *unsafeMapper) Get(e ecs.Entity) []unsafe.Pointer { return m.ptrs(e) }
func (m *unsafeMapper) GetUnchecked(e ecs.Entity) []unsafe.Pointer {
	u := m.env.W.Unsafe()
	out := make([]unsafe.Pointer, len(m.cs))
	for i, id := range m.ids {
		if u.HasUnchecked(e, id) {
			out[i] = u.GetUnchecked(e, id)
		}
	}
	return out
}
func (m *unsafeMapper) HasAll(e ecs.Entity) bool {
	u := m.env.W.Unsafe()
	for _, id := range m.ids {
		if !u.Has(e, id) {
			return false
		}
	}
	return true
}
func (m *unsafeMapper) Add(e ecs.Entity, vals []int64, rels []RelArg) {
	u := m.env.W.Unsafe()
	if len(rels) == 0 {
		u.Add(e, m.ids...)
	} else {
		u.AddRel(e, m.ids, m.env.relsUnsafe(rels)...)
	}
	m.write(e, vals)
}
func (m *unsafeMapper) AddFn(e ecs.Entity, fn func([]unsafe.Pointer), rels []RelArg) {
	u := m.env.W.Unsafe()
	if len(rels) == 0 {
		u.Add(e, m.ids...)
	} else {
		u.AddRel(e, m.ids, m.env.relsUnsafe(rels)...)
	}
	if fn != nil {
		fn(m.ptrs(e))
	}
}
func (m *unsafeMapper) Set(e ecs.Entity, vals []int64) {
	// The ID-based API has no Set; write through the pointers (no event).
	u := m.env.W.Unsafe()
	for i, id := range m.ids {
		ct.Write(m.cs[i], u.Get(e, id), vals[i])
	}
}
func (m *unsafeMapper) AddBatch(ecs.Batch, []int64, []RelArg) { panic("unsupported") }
func (m *unsafeMapper) AddBatchFn(ecs.Batch, func(ecs.Entity, []unsafe.Pointer), []RelArg) {
	panic("unsupported")
}
func (m *unsafeMapper) Remove(e ecs.Entity)                     { m.env.W.Unsafe().Remove(e, m.ids...) }
func (m *unsafeMapper) RemoveBatch(ecs.Batch, func(ecs.Entity)) { panic("unsupported") }
func (m *unsafeMapper) GetRelation(e ecs.Entity, c ct.Comp) ecs.Entity {
	return m.env.W.Unsafe().GetRelation(e, m.env.ID(c))
}
func (m *unsafeMapper) GetRelationUnchecked(e ecs.Entity, c ct.Comp) ecs.Entity {
	return m.env.W.Unsafe().GetRelationUnchecked(e, m.env.ID(c))
}
func (m *unsafeMapper) SetRelations(e ecs.Entity, rels []RelArg) {
	m.env.W.Unsafe().SetRelations(e, m.env.relsUnsafe(rels)...)
}
func (m *unsafeMapper) SetRelationsBatch(ecs.Batch, func(ecs.Entity), []RelArg) {
	panic("unsupported")
}

// ---------------------------------------------------------------- ID-based exchange

type unsafeExchanger struct {
	env    *Env
	cs, rm []ct.Comp
	ids    []ecs.ID
	rmIDs  []ecs.ID
}

// NewUnsafeExchanger creates an Exchanger using the ID-based API only.
func NewUnsafeExchanger(env *Env, add, rem []ct.Comp) Exchanger {
	return &unsafeExchanger{env: env, cs: add, rm: rem, ids: env.IDList(add), rmIDs: env.IDList(rem)}
}

func (x *unsafeExchanger) Comps() []ct.Comp   { return x.cs }
func (x *unsafeExchanger) Removes() []ct.Comp { return x.rm }
func (x *unsafeExchanger) ptrs(e ecs.Entity) []unsafe.Pointer {
	u := x.env.W.Unsafe()
	out := make([]unsafe.Pointer, len(x.cs))
	for i, id := range x.ids {
		out[i] = u.Get(e, id)
	}
	return out
}
func (x *unsafeExchanger) write(e ecs.Entity, vals []int64) {
	p := x.ptrs(e)
	for i, c := range x.cs {
		ct.Write(c, p[i], vals[i])
	}
}
func (x *unsafeExchanger) Add(e ecs.Entity, vals []int64, rels []RelArg) {
	u := x.env.W.Unsafe()
	if len(rels) == 0 {
		u.Add(e, x.ids...)
	} else {
		u.AddRel(e, x.ids, x.env.relsUnsafe(rels)...)
	}
	x.write(e, vals)
}
func (x *unsafeExchanger) AddFn(e ecs.Entity, fn func([]unsafe.Pointer), rels []RelArg) {
	u := x.env.W.Unsafe()
	if len(rels) == 0 {
		u.Add(e, x.ids...)
	} else {
		u.AddRel(e, x.ids, x.env.relsUnsafe(rels)...)
	}
	if fn != nil {
		fn(x.ptrs(e))
	}
}
func (x *unsafeExchanger) Remove(e ecs.Entity) { x.env.W.Unsafe().Remove(e, x.rmIDs...) }
func (x *unsafeExchanger) Exchange(e ecs.Entity, vals []int64, rels []RelArg) {
	x.env.W.Unsafe().Exchange(e, x.ids, x.rmIDs, x.env.relsUnsafe(rels)...)
	x.write(e, vals)
}
func (x *unsafeExchanger) ExchangeFn(e ecs.Entity, fn func([]unsafe.Pointer), rels []RelArg) {
	x.env.W.Unsafe().Exchange(e, x.ids, x.rmIDs, x.env.relsUnsafe(rels)...)
	if fn != nil {
		fn(x.ptrs(e))
	}
}
func (x *unsafeExchanger) AddBatch(ecs.Batch, []int64, []RelArg) { panic("unsupported") }
func (x *unsafeExchanger) AddBatchFn(ecs.Batch, func(ecs.Entity, []unsafe.Pointer), []RelArg) {
	panic("unsupported")
}
func (x *unsafeExchanger) RemoveBatch(ecs.Batch, func(ecs.Entity))    { panic("unsupported") }
func (x *unsafeExchanger) ExchangeBatch(ecs.Batch, []int64, []RelArg) { panic("unsupported") }
func (x *unsafeExchanger) ExchangeBatchFn(ecs.Batch, func(ecs.Entity, []unsafe.Pointer), []RelArg) {
	panic("unsupported")
}

// ---------------------------------------------------------------- ID-based filter / query

type unsafeFilter struct {
	env  *Env
	cs   []ct.Comp // "generic parameters" analogue: the Get order
	all  []ct.Comp // cs + With
	wo   []ct.Comp
	excl bool
	rels []RelArg
}

// NewUnsafeFilter creates a Filter using ecs.UnsafeFilter.
// Registration and Batch are not available in the ID-based API and panic.
func NewUnsafeFilter(env *Env, cs []ct.Comp) Filter {
	return &unsafeFilter{env: env, cs: cs, all: append([]ct.Comp{}, cs...)}
}

func (f *unsafeFilter) Comps() []ct.Comp         { return f.cs }
func (f *unsafeFilter) With(cs ...ct.Comp)       { f.all = append(f.all, cs...) }
func (f *unsafeFilter) Without(cs ...ct.Comp)    { f.wo = append(f.wo, cs...) }
func (f *unsafeFilter) Exclusive()               { f.excl = true }
func (f *unsafeFilter) Relations(r []RelArg)     { f.rels = append(f.rels, r...) }
func (f *unsafeFilter) Register()                { panic("unsupported") }
func (f *unsafeFilter) Unregister()              { panic("unsupported") }
func (f *unsafeFilter) Batch([]RelArg) ecs.Batch { panic("unsupported") }
func (f *unsafeFilter) Query(rels []RelArg) Query {
	uf := ecs.NewUnsafeFilter(f.env.W, f.env.IDList(f.all)...)
	if len(f.wo) > 0 {
		uf = uf.Without(f.env.IDList(f.wo)...)
	}
	if f.excl {
		uf = uf.Exclusive()
	}
	all := append(append([]RelArg{}, f.rels...), rels...)
	q := uf.Query(f.env.relsUnsafe(all)...)
	return &unsafeQuery{env: f.env, q: q, ids: f.env.IDList(f.cs)}
}

type unsafeQuery struct {
	env *Env
	q   ecs.UnsafeQuery
	ids []ecs.ID
}

func (q *unsafeQuery) Next() bool         { return q.q.Next() }
func (q *unsafeQuery) Entity() ecs.Entity { return q.q.Entity() }
func (q *unsafeQuery) Get() []unsafe.Pointer {
	out := make([]unsafe.Pointer, len(q.ids))
	for i, id := range q.ids {
		out[i] = q.q.Get(id)
	}
	return out
}
func (q *unsafeQuery) GetRelation(c ct.Comp) ecs.Entity { return q.q.GetRelation(q.env.ID(c)) }
func (q *unsafeQuery) Count() int                       { return q.q.Count() }
func (q *unsafeQuery) EntityAt(i int) ecs.Entity        { return q.q.EntityAt(i) }
func (q *unsafeQuery) Close()                           { q.q.Close() }

// IDs returns the component IDs of the current entity (UnsafeQuery only).
func (q *unsafeQuery) IDs() []ecs.ID {
	ids := q.q.IDs()
	out := make([]ecs.ID, ids.Len())
	for i := range out {
		out[i] = ids.Get(i)
	}
	return out
}

// Has reports whether the current entity has the component (UnsafeQuery only).
func (q *unsafeQuery) Has(c ct.Comp) bool { return q.q.Has(q.env.ID(c)) }

// UnsafeQueryExtras exposes the methods only ecs.UnsafeQuery has.
type UnsafeQueryExtras interface {
	IDs() []ecs.ID
	Has(c ct.Comp) bool
}

// ---------------------------------------------------------------- non-generic observer

type plainObserver struct {
	env *Env
	o   *ecs.Observer
}

// NewPlainObserver creates an Observer using the non-generic ecs.Observer.
func NewPlainObserver(env *Env, evt ecs.EventType) Observer {
	o := ecs.Observe(evt)
	if env.ViaNew() {
		o = (*ecs.Observer)(nil).New(evt)
	}
	return &plainObserver{env: env, o: o}
}

func (o *plainObserver) Comps() []ct.Comp      { return nil }
func (o *plainObserver) For(cs ...ct.Comp)     { Spread(cs, func(s []ecs.Comp) { o.o.For(s...) }) }
func (o *plainObserver) With(cs ...ct.Comp)    { Spread(cs, func(s []ecs.Comp) { o.o.With(s...) }) }
func (o *plainObserver) Without(cs ...ct.Comp) { Spread(cs, func(s []ecs.Comp) { o.o.Without(s...) }) }
func (o *plainObserver) Exclusive()            { o.o.Exclusive() }
func (o *plainObserver) Do(fn func(ecs.Entity, []unsafe.Pointer)) {
	o.o.Do(func(e ecs.Entity) { fn(e, nil) })
}
func (o *plainObserver) Register()   { o.o.Register(o.env.W) }
func (o *plainObserver) Unregister() { o.o.Unregister(o.env.W) }
