// Package api wraps ark's typed (generic, per-arity) and ID-based APIs behind
// common, position/ID based interfaces, so that the same abstract operation can
// be executed through any API path.
package api

import (
	"reflect"
	"unsafe"

	"github.com/mlange-42/ark/ecs"

	"verif/mc/ct"
)

// RelMode selects how an ecs.Relation is constructed.
type RelMode uint8

// Relation construction modes.
const (
	RelByIdx  RelMode = iota // ecs.RelIdx(position, target)
	RelByType                // ecs.Rel[T](target)
	RelByID                  // ecs.RelID(id, target)
)

// RelArg is a relation target specification.
type RelArg struct {
	Comp   ct.Comp
	Target ecs.Entity
}

// Env holds per-world lookup data: component IDs and the relation mode.
type Env struct {
	W    *ecs.World
	IDs  [ct.NumComps]ecs.ID
	Reg  [ct.NumComps]bool
	Mode RelMode
	ctor int // number of wrapper constructions so far (see ViaNew)
}

// NewEnv creates an environment. Components are registered lazily (or by Register).
func NewEnv(w *ecs.World) *Env { return &Env{W: w} }

// ID returns (registering if necessary) the component ID.
func (e *Env) ID(c ct.Comp) ecs.ID {
	if !e.Reg[c] {
		e.IDs[c] = ecs.TypeID(e.W, ct.Types[c])
		e.Reg[c] = true
	}
	return e.IDs[c]
}

// IDList maps components to IDs.
func (e *Env) IDList(cs []ct.Comp) []ecs.ID {
	out := make([]ecs.ID, len(cs))
	for i, c := range cs {
		out[i] = e.ID(c)
	}
	return out
}

// ViaNew alternates between the two documented ways of constructing mappers, filters, exchangers and
// observers: the NewX / ObserveN function and the New method on a nil pointer ("for dependency
// injection"). The choice is a deterministic function of the construction order within one world.
func (e *Env) ViaNew() bool {
	e.ctor++
	return e.ctor%2 == 0
}

// CompByID maps an ID back to the universe component; ok=false for dummies.
func (e *Env) CompByID(id ecs.ID) (ct.Comp, bool) {
	for c := ct.Comp(0); c < ct.NumComps; c++ {
		if e.Reg[c] && e.IDs[c] == id {
			return c, true
		}
	}
	return 0, false
}

// RegisterDummies registers n distinct dummy component types (ID placement).
func RegisterDummies(w *ecs.World, n int) {
	i8 := reflect.TypeFor[int8]()
	for i := 1; i <= n; i++ {
		ecs.TypeID(w, reflect.ArrayOf(i, i8))
	}
}

// rels converts relation args for a typed tuple.
func (e *Env) rels(tuple []ct.Comp, args []RelArg) []ecs.Relation {
	if len(args) == 0 {
		return nil
	}
	out := make([]ecs.Relation, len(args))
	for i, a := range args {
		switch e.Mode {
		case RelByIdx:
			pos := -1
			for j, c := range tuple {
				if c == a.Comp {
					pos = j
					break
				}
			}
			if pos < 0 {
				out[i] = ct.RelOf(a.Comp, a.Target)
			} else {
				out[i] = ecs.RelIdx(pos, a.Target)
			}
		case RelByType:
			out[i] = ct.RelOf(a.Comp, a.Target)
		default:
			out[i] = ecs.RelID(e.ID(a.Comp), a.Target)
		}
	}
	return out
}

// relsUnsafe converts relation args for the ID-based API.
func (e *Env) relsUnsafe(args []RelArg) []ecs.Relation {
	if len(args) == 0 {
		return nil
	}
	out := make([]ecs.Relation, len(args))
	for i, a := range args {
		if e.Mode == RelByType {
			out[i] = ct.RelOf(a.Comp, a.Target)
		} else {
			out[i] = ecs.RelID(e.ID(a.Comp), a.Target)
		}
	}
	return out
}

// Mapper is the common interface of Map, MapN and the ID-based API for a fixed
// ordered component tuple.
type Mapper interface {
	Comps() []ct.Comp
	NewEntity(vals []int64, rels []RelArg) ecs.Entity
	NewEntityFn(fn func([]unsafe.Pointer), rels []RelArg) ecs.Entity
	NewBatch(n int, vals []int64, rels []RelArg)
	NewBatchFn(n int, fn func(ecs.Entity, []unsafe.Pointer), rels []RelArg)
	Get(e ecs.Entity) []unsafe.Pointer
	GetUnchecked(e ecs.Entity) []unsafe.Pointer
	HasAll(e ecs.Entity) bool
	Add(e ecs.Entity, vals []int64, rels []RelArg)
	AddFn(e ecs.Entity, fn func([]unsafe.Pointer), rels []RelArg)
	Set(e ecs.Entity, vals []int64)
	AddBatch(b ecs.Batch, vals []int64, rels []RelArg)
	AddBatchFn(b ecs.Batch, fn func(ecs.Entity, []unsafe.Pointer), rels []RelArg)
	Remove(e ecs.Entity)
	RemoveBatch(b ecs.Batch, fn func(ecs.Entity))
	GetRelation(e ecs.Entity, c ct.Comp) ecs.Entity
	GetRelationUnchecked(e ecs.Entity, c ct.Comp) ecs.Entity
	SetRelations(e ecs.Entity, rels []RelArg)
	SetRelationsBatch(b ecs.Batch, fn func(ecs.Entity), rels []RelArg)
}

// Exchanger is the common interface of ExchangeN and the ID-based exchange.
type Exchanger interface {
	Comps() []ct.Comp
	Removes() []ct.Comp
	Add(e ecs.Entity, vals []int64, rels []RelArg)
	AddFn(e ecs.Entity, fn func([]unsafe.Pointer), rels []RelArg)
	Remove(e ecs.Entity)
	Exchange(e ecs.Entity, vals []int64, rels []RelArg)
	ExchangeFn(e ecs.Entity, fn func([]unsafe.Pointer), rels []RelArg)
	AddBatch(b ecs.Batch, vals []int64, rels []RelArg)
	AddBatchFn(b ecs.Batch, fn func(ecs.Entity, []unsafe.Pointer), rels []RelArg)
	RemoveBatch(b ecs.Batch, fn func(ecs.Entity))
	ExchangeBatch(b ecs.Batch, vals []int64, rels []RelArg)
	ExchangeBatchFn(b ecs.Batch, fn func(ecs.Entity, []unsafe.Pointer), rels []RelArg)
}

// Filter is the common interface of FilterN and UnsafeFilter.
type Filter interface {
	Comps() []ct.Comp // generic parameters (query Get order)
	With(cs ...ct.Comp)
	Without(cs ...ct.Comp)
	Exclusive()
	Relations(rels []RelArg)
	Register()
	Unregister()
	Query(rels []RelArg) Query
	Batch(rels []RelArg) ecs.Batch
}

// Query is the common interface of QueryN and UnsafeQuery.
type Query interface {
	Next() bool
	Entity() ecs.Entity
	Get() []unsafe.Pointer
	GetRelation(c ct.Comp) ecs.Entity
	Count() int
	EntityAt(i int) ecs.Entity
	Close()
}

// Observer is the common interface of Observer and ObserverN.
type Observer interface {
	Comps() []ct.Comp
	For(cs ...ct.Comp)
	With(cs ...ct.Comp)
	Without(cs ...ct.Comp)
	Exclusive()
	Do(fn func(ecs.Entity, []unsafe.Pointer))
	Register()
	Unregister()
}

func compsOf(cs []ct.Comp) []ecs.Comp {
	out := make([]ecs.Comp, len(cs))
	for i, c := range cs {
		out[i] = ct.CompOf(c)
	}
	return out
}

// Spread calls f with the components as a slice that the caller "owns": it has spare capacity holding a
// sentinel, and is overwritten with a decoy component right after f returns (a caller may re-use its
// argument slice for the next call). A callee that keeps the slice instead of its contents, or appends into
// its spare capacity, changes behaviour.
func Spread(cs []ct.Comp, f func(s []ecs.Comp)) {
	n := len(cs)
	decoy, sentinel := ct.T11, ct.T10
	for _, c := range cs {
		if c == ct.T11 {
			decoy = ct.T8
		}
		if c == ct.T10 {
			sentinel = ct.T7
		}
	}
	buf := make([]ecs.Comp, n+1)
	for i, c := range cs {
		buf[i] = ct.CompOf(c)
	}
	buf[n] = ct.CompOf(sentinel)
	f(buf[:n])
	if buf[n] != ct.CompOf(sentinel) {
		panic("the callee wrote into the spare capacity of the caller's argument slice")
	}
	for i := range buf[:n] {
		buf[i] = ct.CompOf(decoy)
	}
}

func pos(tuple []ct.Comp, c ct.Comp) int {
	for i, x := range tuple {
		if x == c {
			return i
		}
	}
	return -1
}

// Key builds the lookup key of an ordered tuple.
func Key(cs []ct.Comp) string {
	b := make([]byte, len(cs))
	for i, c := range cs {
		b[i] = 'a' + byte(c)
	}
	return string(b)
}
