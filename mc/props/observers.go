package props

import (
	"encoding/json"
	"fmt"
	"runtime"
	"sync"
	"sync/atomic"
	"time"

	"verif/mc/api"
	"verif/mc/ct"
	"verif/mc/drv"
	"verif/mc/engine"
	"verif/mc/model"
)

// ---------------------------------------------------------------- C08: case enumeration

var obsUniverse = []ct.Comp{ct.P, ct.Q, ct.R1, ct.T9, ct.R2}

func subsets(u []ct.Comp) []ct.Set {
	var out []ct.Set
	for mask := 0; mask < 1<<len(u); mask++ {
		var s ct.Set
		for i, c := range u {
			if mask&(1<<i) != 0 {
				s |= ct.Of(c)
			}
		}
		out = append(out, s)
	}
	return out
}

// obsSpecs enumerates all observer specifications of one event type over universe u.
func obsSpecs(ev int, u []ct.Comp) []model.ObsSpec {
	var out []model.ObsSpec
	subs := subsets(u)
	k := 0
	for _, f := range subs {
		if (ev == model.EvAddRelations || ev == model.EvRemoveRelations) && f&^ct.Of(ct.R1, ct.R2) != 0 {
			continue // relation observers may only observe relation components
		}
		for _, w := range subs {
			for xi := 0; xi <= len(subs); xi++ {
				s := model.ObsSpec{Event: ev, For: f, With: w}
				if xi == len(subs) {
					s.Exclusive = true
				} else {
					s.Without = subs[xi]
				}
				// every third spec with a single observed non-zero-size component uses the typed ObserverN
				k++
				if k%3 == 0 && f.Len() >= 1 {
					first := f.List()[0]
					if first == ct.P || first == ct.Q {
						s.Params = []ct.Comp{first}
						s.For = f &^ ct.Of(first)
					}
				}
				out = append(out, s)
			}
		}
	}
	return out
}

// obsProgram runs all transitions in one world; returns the executed ops and the first violation.
type obsProg struct {
	x    *drv.World
	hist []model.Op
	v    *drv.Violation
}

func (p *obsProg) do(op model.Op) bool {
	if p.v != nil {
		return false
	}
	if !p.x.M.Valid(&op) {
		return true
	}
	p.hist = append(p.hist, op)
	if v := p.x.Exec(op); v != nil {
		p.v = v
		return false
	}
	return true
}

// n returns the model index the next created entity will get.
func (p *obsProg) n() int { return len(p.x.M.Ents) }

func obsFilters() []model.FilterSpec {
	return []model.FilterSpec{
		{Params: []ct.Comp{ct.P}, Without: ct.Of(ct.Q)},  // f0: has P, lacks Q
		{Params: []ct.Comp{ct.Q}},                        // f1
		{Params: []ct.Comp{ct.R1}},                       // f2
		{Params: []ct.Comp{ct.P}},                        // f3
		{Params: []ct.Comp{ct.R1, ct.R2}},                // f4
		{Params: []ct.Comp{ct.P}, Without: ct.Of(ct.R1)}, // f5
		{}, // f6: everything (clean-up at the end of a transition round)
	}
}

// transitions executes every (old set, new set, changed relation set) transition over {P,Q,R1}
// through single and batch operations, plus Set, target changes, entity removal, Copy and Emit.
func transitions(p *obsProg, full bool) {
	u := []ct.Comp{ct.P, ct.Q, ct.R1}
	// two targets
	t1 := p.n()
	p.do(model.Op{K: model.OpNew, Path: model.PathUnsafe, Cs: ct.Of(ct.T9)})
	t2 := p.n()
	p.do(model.Op{K: model.OpNew, Path: model.PathUnsafe, Cs: ct.Of(ct.T9)})
	relFor := func(cs ct.Set, t int) []model.RelT {
		if cs.Has(ct.R1) {
			return rel(ct.R1, t)
		}
		return nil
	}
	mk := func(cs ct.Set, path model.Path) int {
		i := p.n()
		if cs == 0 {
			p.do(model.Op{K: model.OpNewPlain})
		} else {
			p.do(model.Op{K: model.OpNew, Path: path, Cs: cs, T: relFor(cs, t1)})
		}
		return i
	}
	subs := subsets(u)
	paths := []model.Path{model.PathMapN, model.PathUnsafe}
	// creation + all old->new transitions
	k := 0
	for _, old := range subs {
		for _, nw := range subs {
			if old == nw {
				continue
			}
			k++
			path := paths[k%2]
			if !full && k%2 == 0 && old.Len()+nw.Len() > 3 {
				// quick tier: still every (old,new) pair, alternate API path
			}
			e := mk(old, paths[(k/2)%2])
			add, rem := nw&^old, old&^nw
			switch {
			case rem == 0:
				p.do(model.Op{K: model.OpAdd, Path: path, E: e, Cs: add, T: relFor(add, t2)})
			case add == 0:
				p.do(model.Op{K: model.OpRemove, Path: path, E: e, Rm: rem})
			default:
				p.do(model.Op{K: model.OpExchange, Path: path, E: e, Cs: add, Rm: rem, T: relFor(add, t2)})
			}
			if p.v != nil {
				return
			}
		}
	}
	// Set, relation target changes, copy, removal, custom events on every component set
	for _, cs := range subs {
		e := mk(cs, model.PathMapN)
		if cs.Has(ct.P) {
			p.do(model.Op{K: model.OpSet, Path: model.PathMapN, E: e, Cs: ct.Of(ct.P)})
			p.do(model.Op{K: model.OpSet, Path: model.PathMap, E: e, Cs: ct.Of(ct.P)})
		}
		if cs.Has(ct.P) && cs.Has(ct.Q) {
			p.do(model.Op{K: model.OpSet, Path: model.PathMapN, E: e, Cs: ct.Of(ct.P, ct.Q)})
		}
		if cs.Has(ct.R1) {
			p.do(model.Op{K: model.OpSetRel, Path: model.PathMapN, E: e, T: rel(ct.R1, t2)})
			p.do(model.Op{K: model.OpSetRel, Path: model.PathUnsafe, E: e, T: rel(ct.R1, t2)}) // unchanged: no event
			p.do(model.Op{K: model.OpSetRel, Path: model.PathMap, E: e, T: rel(ct.R1, model.ZeroTarget)})
			p.do(model.Op{K: model.OpSetRel, Path: model.PathMapN, E: e, T: rel(ct.R1, t1)})
		}
		p.do(model.Op{K: model.OpCopy, E: e})
		for n := 0; n < 2; n++ {
			p.do(model.Op{K: model.OpEmit, E: e, N: n})
			if cs.Has(ct.P) {
				p.do(model.Op{K: model.OpEmit, E: e, N: n, Cs: ct.Of(ct.P)})
			}
			if cs.Has(ct.P) && cs.Has(ct.Q) {
				p.do(model.Op{K: model.OpEmit, E: e, N: n, Cs: ct.Of(ct.P, ct.Q)})
			}
		}
		p.do(model.Op{K: model.OpRemoveEntity, E: e})
		if p.v != nil {
			return
		}
	}
	p.do(model.Op{K: model.OpEmit, E: model.ZeroTarget, N: 0})
	// two relation components: retarget one, both, or none of them in one call
	{
		e := p.n()
		p.do(model.Op{K: model.OpNew, Path: model.PathMapN, Cs: ct.Of(ct.R1, ct.R2), T: []model.RelT{{C: ct.R1, T: t1}, {C: ct.R2, T: t1}}})
		p.do(model.Op{K: model.OpSetRel, Path: model.PathMapN, E: e, Ord: []ct.Comp{ct.R1, ct.R2}, T: []model.RelT{{C: ct.R1, T: t1}, {C: ct.R2, T: t2}}}) // only R2 changes
		p.do(model.Op{K: model.OpSetRel, Path: model.PathUnsafe, E: e, T: []model.RelT{{C: ct.R1, T: t2}, {C: ct.R2, T: t2}}})                             // only R1 changes
		p.do(model.Op{K: model.OpSetRel, Path: model.PathMapN, E: e, Ord: []ct.Comp{ct.R1, ct.R2}, T: []model.RelT{{C: ct.R1, T: t1}, {C: ct.R2, T: t1}}}) // both change
		p.do(model.Op{K: model.OpSetRel, Path: model.PathUnsafe, E: e, T: []model.RelT{{C: ct.R1, T: t1}, {C: ct.R2, T: t1}}})                             // none changes
		p.do(model.Op{K: model.OpSetRelBatch, Path: model.PathMapN, F: 4, Ord: []ct.Comp{ct.R1, ct.R2}, T: []model.RelT{{C: ct.R1, T: t1}, {C: ct.R2, T: t2}}, Fn: true})
		p.do(model.Op{K: model.OpRemove, Path: model.PathMapN, E: e, Rm: ct.Of(ct.R2)})
		p.do(model.Op{K: model.OpAdd, Path: model.PathMapN, E: e, Cs: ct.Of(ct.R2), T: rel(ct.R2, t2)})
		p.do(model.Op{K: model.OpRemoveEntity, E: e})
	}
	// batch forms: populate several tables, then batch-transition them
	for round := 0; round < 2; round++ {
		p.do(model.Op{K: model.OpNewEntities, N: 2, Fn: round == 0})
		p.do(model.Op{K: model.OpNewBatch, Path: model.PathMapN, Cs: ct.Of(ct.P), N: 2, Init: model.InitFn, Fn: true})
		p.do(model.Op{K: model.OpNewBatch, Path: model.PathMapN, Cs: ct.Of(ct.P, ct.R1), N: 2, T: rel(ct.R1, t1)})
		p.do(model.Op{K: model.OpNewBatch, Path: model.PathMap, Cs: ct.Of(ct.R1), N: 2, T: rel(ct.R1, t2), Init: model.InitNil})
		p.do(model.Op{K: model.OpNewBatch, Path: model.PathMapN, Cs: ct.Of(ct.P, ct.Q), N: 1})
		p.do(model.Op{K: model.OpAddBatch, Path: model.PathMapN, F: 0, Cs: ct.Of(ct.Q), Init: model.InitFn, Fn: true}) // {P}->{P,Q}, {P,R1}->{P,Q,R1}
		p.do(model.Op{K: model.OpSetRelBatch, Path: model.PathMapN, F: 2, T: rel(ct.R1, t2), Fn: round == 1})
		p.do(model.Op{K: model.OpExchangeBatch, F: 1, Cs: ct.Of(ct.T9), Rm: ct.Of(ct.Q), Fn: true})
		p.do(model.Op{K: model.OpRemoveBatch, Path: model.PathMapN, F: 2, Rm: ct.Of(ct.R1), Fn: round == 0})
		p.do(model.Op{K: model.OpNew, Path: model.PathUnsafe, Cs: ct.Of(ct.P, ct.R1), T: rel(ct.R1, t1)}) // destination of the next batch is not empty
		p.do(model.Op{K: model.OpNew, Path: model.PathUnsafe, Cs: ct.Of(ct.P)})
		p.do(model.Op{K: model.OpNew, Path: model.PathUnsafe, Cs: ct.Of(ct.P)})
		p.do(model.Op{K: model.OpAddBatch, Path: model.PathMapN, F: 4 + 1, Cs: ct.Of(ct.R1), T: rel(ct.R1, t1)})
		p.do(model.Op{K: model.OpExchangeBatch, F: 2, Cs: ct.Of(ct.Q), Rm: ct.Of(ct.R1, ct.P)})
		p.do(model.Op{K: model.OpRemoveEntities, F: 1, Fn: round == 1})
		// one batch removal spanning a table without relations (older archetype) and tables with relations
		p.do(model.Op{K: model.OpNew, Path: model.PathUnsafe, Cs: ct.Of(ct.P)})
		p.do(model.Op{K: model.OpNew, Path: model.PathUnsafe, Cs: ct.Of(ct.P, ct.R1), T: rel(ct.R1, t2)})
		p.do(model.Op{K: model.OpNew, Path: model.PathUnsafe, Cs: ct.Of(ct.P, ct.Q, ct.R1), T: rel(ct.R1, t1)})
		p.do(model.Op{K: model.OpRemoveEntities, F: 3})
		if p.v != nil {
			return
		}
	}
	p.do(model.Op{K: model.OpRemoveEntity, E: t1}) // target death: no events
	p.do(model.Op{K: model.OpRemoveEntity, E: t2})
	// every round starts from an empty world (a case consists of several rounds)
	p.do(model.Op{K: model.OpRemoveEntities, F: 6})
}

type obsCase struct {
	Specs  []model.ObsSpec
	Offset int // component-ID offset (dummy types registered first)
	Plan   int // 0: register all, run; 1: + unregister first, run, re-register, run; 2: reverse registration order + unregister last
	Full   bool
	// Un: after registering all and running once, unregister these observers one at a time (transitions
	// after each), then register them again in the same order (transitions after each)
	Un []int `json:",omitempty"`
}

type obsFound struct {
	Case obsCase
	Hist []model.Op
	V    drv.Violation
}

func runObsCase(c obsCase) *obsFound {
	cfg := drv.Config{Cap: 2, Universe: obsUniverse, Offset: c.Offset}
	x := drv.NewWorld(cfg, obsFilters(), c.Specs, 1, drv.Oracle{Events: true})
	p := &obsProg{x: x}
	n := len(c.Specs)
	switch c.Plan {
	case 2:
		for i := n - 1; i >= 0; i-- {
			p.do(model.Op{K: model.OpObserve, O: i})
		}
	default:
		for i := 0; i < n; i++ {
			p.do(model.Op{K: model.OpObserve, O: i})
		}
	}
	transitions(p, c.Full)
	if len(c.Un) > 0 && p.v == nil {
		for _, i := range c.Un {
			p.do(model.Op{K: model.OpUnobserve, O: i})
			transitions(p, false)
		}
		for _, i := range c.Un {
			p.do(model.Op{K: model.OpObserve, O: i})
			transitions(p, false)
		}
	}
	if c.Plan >= 1 && p.v == nil {
		victim := 0
		if c.Plan == 2 {
			victim = n - 1
		}
		p.do(model.Op{K: model.OpUnobserve, O: victim})
		transitions(p, c.Full)
		p.do(model.Op{K: model.OpObserve, O: victim})
		transitions(p, c.Full)
		// unregister everything: nothing may fire any more
		for i := 0; i < n; i++ {
			p.do(model.Op{K: model.OpUnobserve, O: i})
		}
		transitions(p, false)
	}
	if p.v != nil {
		return &obsFound{Case: c, Hist: p.hist, V: *p.v}
	}
	obsOps.Add(int64(x.Stat.Ops))
	obsCbs.Add(int64(x.Stat.Callbacks))
	return nil
}

var obsOps, obsCbs atomic.Int64

// runObsCases runs cases in parallel; returns findings grouped by signature.
func runObsCases(gen func(emit func(obsCase)), deadline time.Time) (cases int64, found map[string]*obsFound, timedOut bool) {
	found = map[string]*obsFound{}
	var mu sync.Mutex
	ch := make(chan obsCase, 1024)
	var wg sync.WaitGroup
	var n atomic.Int64
	var to atomic.Bool
	for w := 0; w < runtime.NumCPU(); w++ {
		wg.Add(1)
		go func() {
			defer wg.Done()
			for c := range ch {
				if to.Load() {
					continue
				}
				n.Add(1)
				if f := runObsCase(c); f != nil {
					opk := ""
					if f.V.Step >= 1 && f.V.Step <= len(f.Hist) {
						opk = f.Hist[f.V.Step-1].K.String()
					}
					sig := f.V.Kind + "|" + opk + "|" + model.EvNames[c.Specs[0].Event]
					mu.Lock()
					if old, ok := found[sig]; !ok || len(f.Case.Specs) < len(old.Case.Specs) || (len(f.Case.Specs) == len(old.Case.Specs) && len(f.Hist) < len(old.Hist)) {
						found[sig] = f
					}
					mu.Unlock()
				}
			}
		}()
	}
	k := 0
	gen(func(c obsCase) {
		k++
		if NShard > 1 && k%NShard != Shard {
			return
		}
		if k%256 == 0 && time.Now().After(deadline) {
			to.Store(true)
		}
		if !to.Load() {
			ch <- c
		}
	})
	close(ch)
	wg.Wait()
	return n.Load(), found, to.Load()
}

func init() {
	Registry["C08"] = func(t Tier) *Check {
		chk := &Check{ID: "C08",
			Rule: "case enumeration: for each of the 7 built-in event types and 2 custom ones, every observer specification (observed set x With x Without|exclusive) over {P,Q,R1} alone, every ordered pair (and in thorough: triples) of simultaneously registered specifications over a smaller universe, with register / unregister-first / re-register / reverse-order plans, triples of specifications (observed in {none,R1} x With in {none,P,Q}) with every order of unregistering two of the three and registering them again, and observers that unregister themselves or a neighbour inside the callback; each case runs all 56 (old set -> new set) single-entity transitions over {P,Q,R1} through MapN/Map/ExchangeN/ID-based paths, Set, relation target changes, Copy, entity removal, custom Emit and every batch form; per operation the multiset of (observer, entity) callbacks must equal the documented predicate evaluated per observer; states = cases, non-trivial = cases in which at least one callback ran",
		}
		// 70 simultaneously registered observers (more than 64), mass unregistration
		sd := 3
		if t == Thorough {
			sd = 4
		}
		chk.Scenarios = []*engine.Scenario{scaleObservers(sd)}
		chk.SpecialSharded = true
		chk.Special = func(tier Tier, rep *engine.Report) error {
			budget := 150 * time.Second
			if tier == Thorough {
				budget = 1200 * time.Second
			}
			deadline := time.Now().Add(budget)
			u3 := []ct.Comp{ct.P, ct.Q, ct.R1}
			u2 := []ct.Comp{ct.P, ct.R1}
			events := []int{model.EvCreateEntity, model.EvRemoveEntity, model.EvAddComponents, model.EvRemoveComponents, model.EvSetComponents, model.EvAddRelations, model.EvRemoveRelations, model.EvCustom, model.EvCustom2}
			gen := func(emit func(obsCase)) {
				// singles over the 3-component universe
				for _, ev := range events {
					u := u3
					if ev == model.EvAddRelations || ev == model.EvRemoveRelations {
						u = []ct.Comp{ct.P, ct.R1, ct.R2}
					}
					for _, s := range obsSpecs(ev, u) {
						emit(obsCase{Specs: []model.ObsSpec{s}, Plan: 0, Full: true})
					}
				}
				// component IDs in the upper mask words: singles over {P,R1} and {P,Q} at offset 190 (IDs 190..194)
				for _, ev := range events {
					for _, uu := range [][]ct.Comp{{ct.P, ct.R1}, {ct.P, ct.Q}} {
						for _, s := range obsSpecs(ev, uu) {
							emit(obsCase{Specs: []model.ObsSpec{s}, Plan: 0, Offset: 190})
						}
					}
				}
				// ordered pairs
				pu := u2
				if tier == Thorough {
					pu = u3
				}
				for _, ev := range events {
					ss := obsSpecs(ev, pu)
					if tier == Thorough && len(ss) > 200 {
						// full 3-universe pairs are ~3e5 per event: pair every spec with every spec of the 2-universe
						s2 := obsSpecs(ev, u2)
						for _, a := range ss {
							for _, b := range s2 {
								emit(obsCase{Specs: []model.ObsSpec{a, b}, Plan: 1})
								emit(obsCase{Specs: []model.ObsSpec{b, a}, Plan: 2})
							}
						}
						continue
					}
					for i, a := range ss {
						for j, b := range ss {
							emit(obsCase{Specs: []model.ObsSpec{a, b}, Plan: 1 + (i+j)%2})
						}
					}
				}
				// triples with every order of unregistering two of the three (the aggregates kept per event type
				// - union of observed and of required components, "any without ..." flags - are recomputed on
				// every unregistration): observed in {none, R1}, With in {none, P, Q}, no exclusions
				for _, ev := range events {
					var ss []model.ObsSpec
					for _, f := range []ct.Set{0, ct.Of(ct.R1)} {
						for _, w := range []ct.Set{0, ct.Of(ct.P), ct.Of(ct.Q)} {
							ss = append(ss, model.ObsSpec{Event: ev, For: f, With: w})
						}
					}
					for _, a := range ss {
						for _, b := range ss {
							for _, c := range ss {
								for _, un := range [][]int{{0, 1}, {1, 0}, {0, 2}, {2, 0}, {1, 2}, {2, 1}} {
									emit(obsCase{Specs: []model.ObsSpec{a, b, c}, Un: un})
								}
							}
						}
					}
				}
				// unregistering inside callbacks: pairs and triples over {P}
				u1 := []ct.Comp{ct.P}
				for _, ev := range events {
					ss := obsSpecs(ev, u1)
					if ev == model.EvAddRelations || ev == model.EvRemoveRelations {
						ss = obsSpecs(ev, []ct.Comp{ct.R1})
					}
					for _, a := range ss {
						for _, b := range ss {
							a1 := a
							a1.Action = 1
							emit(obsCase{Specs: []model.ObsSpec{a1, b}, Plan: 0})
							emit(obsCase{Specs: []model.ObsSpec{b, a1}, Plan: 0})
							a2 := a
							a2.Action, a2.Arg = 2, 1
							emit(obsCase{Specs: []model.ObsSpec{a2, b}, Plan: 0})
							if tier == Thorough {
								for _, c := range ss {
									emit(obsCase{Specs: []model.ObsSpec{a1, b, c}, Plan: 1})
									emit(obsCase{Specs: []model.ObsSpec{b, c, a}, Plan: 2})
								}
							}
						}
					}
				}
			}
			cases, found, to := runObsCases(gen, deadline)
			rep.Histories += cases
			rep.States += cases
			rep.NonTrivial += cases // every case runs all transitions; callbacks counted below
			rep.Transitions += obsOps.Load()
			rep.Callbacks += obsCbs.Load()
			if to {
				rep.Exhaustive = false
				rep.PerConfig = append(rep.PerConfig, "C08: deadline reached, enumeration partial")
			}
			rep.PerConfig = append(rep.PerConfig, fmt.Sprintf("C08 cases=%d ops=%d callbacks=%d", cases, obsOps.Load(), obsCbs.Load()))
			rep.Samples = append(rep.Samples, fmt.Sprintf("case: observers=%v plan=register,transitions(all 56 set transitions + set/setrel/copy/emit/remove + batches),unregister first,transitions,re-register,transitions",
				[]model.ObsSpec{obsSpecs(model.EvRemoveComponents, u3)[77], obsSpecs(model.EvRemoveComponents, u2)[5]}))
			for sig, f := range found {
				raw, _ := json.Marshal(f)
				rep.Found = append(rep.Found, engine.Found{Scenario: "C08-cases", Hist: f.Hist, V: f.V, OpKind: sig, Raw: raw,
					Note: fmt.Sprintf("observers: %v plan=%d", f.Case.Specs, f.Case.Plan)})
			}
			return nil
		}
		chk.Confirm = func(raw []byte) bool {
			var f obsFound
			if json.Unmarshal(raw, &f) != nil {
				return false
			}
			g := runObsCase(f.Case)
			return g != nil && g.V.Kind == f.V.Kind
		}
		chk.Replay = func(raw []byte) int {
			var rf struct {
				Extra obsFound `json:"extra"`
			}
			if err := json.Unmarshal(raw, &rf); err != nil {
				fmt.Println(err)
				return 2
			}
			f := runObsCase(rf.Extra.Case)
			if f == nil {
				fmt.Println("replay: no violation")
				return 0
			}
			fmt.Printf("VIOLATION property=C08 replay=-\n  observers: %v\n  %s\n", f.Case.Specs, f.V.Error())
			for i, op := range f.Hist {
				if i >= len(f.Hist)-6 {
					fmt.Printf("  %3d %v\n", i+1, op)
				}
			}
			return 1
		}
		addThreshold(chk, "many-observers", manyObserversSweep, "n in {2,63..66,127..129,255..258,300} observers on one event type, observers at the first, last, middle and the positions around 256 unregistered one after the other and registered again: one event reaches exactly the registered ones")
		addThreshold(chk, "event-types", func() (int, int, []*drv.Violation) { return runCases(eventTypesCase) }, "all 249 custom event types of an EventRegistry are distinct from each other and from the built-in ones, can be emitted, and observers of the first, last and word-boundary ones fire exactly once")
		return chk
	}
	_ = api.RelByIdx
}

// ---------------------------------------------------------------- C09: callbacks see a consistent world

func c09Observers() []model.ObsSpec {
	var out []model.ObsSpec
	for ev := 0; ev < 7; ev++ {
		out = append(out, model.ObsSpec{Event: ev})
	}
	out = append(out,
		model.ObsSpec{Event: model.EvAddComponents, Params: []ct.Comp{ct.Q}},
		model.ObsSpec{Event: model.EvRemoveComponents, Params: []ct.Comp{ct.Q}},
		model.ObsSpec{Event: model.EvCreateEntity, Params: []ct.Comp{ct.P}},
		model.ObsSpec{Event: model.EvRemoveEntity, Params: []ct.Comp{ct.P}},
		model.ObsSpec{Event: model.EvSetComponents, Params: []ct.Comp{ct.P}},
	)
	return out
}

func init() {
	Registry["C09"] = func(t Tier) *Check {
		d := 3
		if t == Thorough {
			d = 4
		}
		obs := c09Observers()
		var reg []model.Op
		for i := range obs {
			reg = append(reg, model.Op{K: model.OpObserve, O: i})
		}
		u := []ct.Comp{ct.P, ct.Q, ct.R1, ct.R2, ct.T9}
		filters := []model.FilterSpec{
			{Params: []ct.Comp{ct.R1}},                       // f0
			{With: ct.Of(ct.P)},                              // f1
			{Params: []ct.Comp{ct.P}, Without: ct.Of(ct.Q)},  // f2
			{Params: []ct.Comp{ct.P, ct.Q}},                  // f3
			{Params: []ct.Comp{ct.P}, Without: ct.Of(ct.R1)}, // f4
		}
		extra := func(path model.Path) func(m *model.Model) []model.Op {
			return func(m *model.Model) []model.Op {
				var ops []model.Op
				tg := targets(m, 2)
				for _, e := range pick2(with(m, ct.Of(ct.P))) {
					ops = append(ops, model.Op{K: model.OpSet, Path: model.PathMapN, E: e, Cs: ct.Of(ct.P)})
					if !m.Ents[e].Comps.Has(ct.Q) {
						ops = append(ops, model.Op{K: model.OpAdd, Path: path, E: e, Cs: ct.Of(ct.Q)})
						ops = append(ops, model.Op{K: model.OpExchange, Path: path, E: e, Cs: ct.Of(ct.Q), Rm: ct.Of(ct.P), Init: model.InitFn})
						ops = append(ops, model.Op{K: model.OpExchange, Path: path, E: e, Cs: ct.Of(ct.Q, ct.T9), Rm: ct.Of(ct.P)})
					} else {
						ops = append(ops, model.Op{K: model.OpRemove, Path: path, E: e, Rm: ct.Of(ct.Q)})
					}
				}
				for _, e := range pick2(m.Alive()) {
					ops = append(ops, model.Op{K: model.OpCopy, E: e})
				}
				ops = append(ops,
					model.Op{K: model.OpNewBatch, Path: model.PathMapN, Cs: ct.Of(ct.P), N: 2, Init: model.InitFn, Fn: true},
					model.Op{K: model.OpNewEntities, N: 2, Fn: true},
					model.Op{K: model.OpAddBatch, Path: model.PathMapN, F: 2, Cs: ct.Of(ct.Q), Init: model.InitFn, Fn: true},
					model.Op{K: model.OpAddBatch, Path: model.PathMap, F: 2, Cs: ct.Of(ct.Q)},
					model.Op{K: model.OpRemoveBatch, Path: model.PathMapN, F: 3, Rm: ct.Of(ct.Q), Fn: true},
					model.Op{K: model.OpExchangeBatch, F: 0, Cs: ct.Of(ct.Q), Rm: ct.Of(ct.R1), Fn: true},
					// batch removal of a relation component WITHOUT a callback (whether the world is locked for the
					// observers then depends on the implementation's own decision)
					model.Op{K: model.OpRemoveBatch, Path: model.PathMapN, F: 0, Rm: ct.Of(ct.R1)},
					model.Op{K: model.OpExchangeBatch, F: 0, Cs: ct.Of(ct.T9), Rm: ct.Of(ct.R1), Init: model.InitNil},
				)
				for _, t := range tg[1:] {
					ops = append(ops,
						model.Op{K: model.OpNewBatch, Path: model.PathMap, Cs: ct.Of(ct.R1), N: 2, T: rel(ct.R1, t), Init: model.InitNil},
						model.Op{K: model.OpNewBatch, Path: model.PathMapN, Cs: ct.Of(ct.R1, ct.R2), N: 1, T: []model.RelT{{C: ct.R1, T: t}, {C: ct.R2, T: t}}, Init: model.InitNil},
						model.Op{K: model.OpNewBatch, Path: model.PathMapN, Cs: ct.Of(ct.P, ct.R1), N: 2, T: rel(ct.R1, t)},
						model.Op{K: model.OpAddBatch, Path: model.PathMapN, F: 4, Cs: ct.Of(ct.R1), T: rel(ct.R1, t)},
						model.Op{K: model.OpSetRelBatch, Path: model.PathMapN, F: 0, QT: rel(ct.R1, t), T: rel(ct.R1, model.ZeroTarget), Fn: true},
					)
				}
				return ops
			}
		}
		var scs []*engine.Scenario
		for _, path := range []model.Path{model.PathMapN, model.PathUnsafe} {
			var pre [][]model.Op
			for _, p := range relPreludes(path)[1:4] {
				pre = append(pre, append(append([]model.Op{}, reg...), p...))
			}
			scs = append(scs, &engine.Scenario{
				Name: "C09-callbacks/" + path.String(), Cfgs: cfgs([]int{1}, []int{0}, []api.RelMode{api.RelByIdx}, u), Filters: filters, Obs: obs, Slots: 1,
				Oracle:   drv.Oracle{World: true, Events: true, InCb: true, Lock: true},
				Preludes: pre,
				Alphabet: concat(relAlphabet(relOpts{path: path, maxAlive: 6, batch: true, two: path == model.PathMapN, nTargets: 2}), extra(path)),
				Depth:    d,
			})
		}
		// only relation observers registered (no entity/component observers): other lock decisions
		{
			var regRel []model.Op
			for i, o := range obs {
				if o.Event == model.EvAddRelations || o.Event == model.EvRemoveRelations {
					regRel = append(regRel, model.Op{K: model.OpObserve, O: i})
				}
			}
			var pre [][]model.Op
			for _, p := range relPreludes(model.PathMapN)[1:3] {
				pre = append(pre, append(append([]model.Op{}, regRel...), p...))
			}
			// a single kind of observer registered at a time (lock decisions that enumerate event types)
			for _, ev := range []int{model.EvRemoveRelations, model.EvAddRelations, model.EvRemoveComponents, model.EvAddComponents, model.EvRemoveEntity} {
				var one []model.Op
				for i, o := range obs {
					if o.Event == ev && len(o.Params) == 0 {
						one = append(one, model.Op{K: model.OpObserve, O: i})
					}
				}
				pre = append(pre, append(one, relPreludes(model.PathMapN)[2]...))
			}
			scs = append(scs, &engine.Scenario{
				Name: "C09-callbacks/relation-observers-only", Cfgs: cfgs([]int{1}, []int{0}, []api.RelMode{api.RelByIdx}, u), Filters: filters, Obs: obs, Slots: 1,
				Oracle:   drv.Oracle{World: true, Events: true, InCb: true, Lock: true},
				Preludes: pre,
				Alphabet: concat(relAlphabet(relOpts{path: model.PathMapN, maxAlive: 6, batch: true, two: true, nTargets: 2}), extra(model.PathMapN)),
				Depth:    d,
			})
		}
		return &Check{ID: "C09", Scenarios: scs,
			Rule: "all histories over the relation + batch + set alphabet (single and batch form of every emitting operation, MapN/Map/ExchangeN and ID-based paths) with wildcard observers on all 7 event types plus typed Observer1 on 5 of them; inside every callback: reported entity alive and affected, whole world equals the model's pre-state (removal events) or post-state (all others) for every entity of the batch, a Filter0 query visits the entity exactly once and every alive entity once, IsLocked as documented, typed pointers address the entity's components; non-trivial = >=1 alive entity",
		}
	}
}
