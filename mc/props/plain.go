package props

import (
	"verif/mc/api"
	"verif/mc/ct"
	"verif/mc/drv"
	"verif/mc/engine"
	"verif/mc/model"
)

// plainOpts parametrises the plain-move alphabet (S1/S2/S5 of DESIGN appendix B) over two
// components A (always present at creation) and B (added/removed).
type plainOpts struct {
	a, b     ct.Comp
	c        ct.Comp // optional third kind created standalone (ct.NumComps: none)
	path     model.Path
	maxAlive int
	shrink   bool
	reset    bool
	batch    bool // NewBatch(3) and batch add/remove over filters f0=[A], f1=[A,B]
	nilInit  bool
	copyOp   bool
	gc       bool
}

func plainFilters(a, b ct.Comp) []model.FilterSpec {
	return []model.FilterSpec{
		{Params: []ct.Comp{a}},
		{Params: []ct.Comp{a, b}},
		{Params: []ct.Comp{a}, Without: ct.Of(b)},
	}
}

func plainFamily(a, b ct.Comp) []model.FilterSpec {
	return []model.FilterSpec{
		{},
		{Params: []ct.Comp{a}},
		{Params: []ct.Comp{b}},
		{Params: []ct.Comp{a, b}},
		{Params: []ct.Comp{b, a}},
		{Params: []ct.Comp{a}, Without: ct.Of(b)},
		{Params: []ct.Comp{a}, Exclusive: true},
		{Params: []ct.Comp{a, b}, Unsafe: true},
		{With: ct.Of(b)},
	}
}

func plainAlphabet(o plainOpts) func(m *model.Model) []model.Op {
	A, B := ct.Of(o.a), ct.Of(o.b)
	setPath := o.path
	if setPath == model.PathExchange || setPath == model.PathUnsafe {
		setPath = model.PathMapN
	}
	return func(m *model.Model) []model.Op {
		var ops []model.Op
		if limitAlive(m, o.maxAlive) {
			newPath := o.path
			if newPath == model.PathExchange {
				newPath = model.PathMapN
			}
			ops = append(ops, model.Op{K: model.OpNew, Path: newPath, Cs: A})
			if newPath != model.PathMap {
				ops = append(ops, model.Op{K: model.OpNew, Path: newPath, Cs: A | B, Init: model.InitFn})
			}
			if o.nilInit {
				ops = append(ops, model.Op{K: model.OpNew, Path: newPath, Cs: A, Init: model.InitNil})
			}
			if o.c < ct.NumComps {
				ops = append(ops, model.Op{K: model.OpNew, Path: newPath, Cs: ct.Of(o.c)})
			}
			if o.copyOp {
				for _, e := range pick2(m.Alive()) {
					ops = append(ops, model.Op{K: model.OpCopy, E: e})
				}
			}
			if o.batch && m.NumAlive()+3 <= o.maxAlive+1 {
				ops = append(ops, model.Op{K: model.OpNewBatch, Path: newPath, Cs: A, N: 3, Init: model.InitFn, Fn: true})
			}
		}
		for _, e := range pick(without(m, B)) {
			if m.Ents[e].Comps&A != 0 || o.c < ct.NumComps {
				op := model.Op{K: model.OpAdd, Path: o.path, E: e, Cs: B}
				if o.nilInit && e%2 == 1 {
					op.Init = model.InitNil
				}
				ops = append(ops, op)
			}
		}
		for _, e := range pick(with(m, B)) {
			ops = append(ops, model.Op{K: model.OpRemove, Path: o.path, E: e, Rm: B})
		}
		if o.path != model.PathMap {
			for _, e := range pick2(with(m, A)) {
				if !m.Ents[e].Comps.Has(o.b) {
					ops = append(ops, model.Op{K: model.OpExchange, Path: o.path, E: e, Cs: B, Rm: A})
				}
			}
			for _, e := range pick2(with(m, B)) {
				if !m.Ents[e].Comps.Has(o.a) {
					ops = append(ops, model.Op{K: model.OpExchange, Path: o.path, E: e, Cs: A, Rm: B, Init: model.InitFn})
				}
			}
		}
		for _, e := range pick2(with(m, A)) {
			ops = append(ops, model.Op{K: model.OpSet, Path: setPath, E: e, Cs: A})
		}
		if wa := with(m, A); len(wa) > 0 {
			ops = append(ops, model.Op{K: model.OpWrite, Path: o.path, E: wa[len(wa)/2], Cs: A})
		}
		if wb := with(m, B); len(wb) > 0 {
			ops = append(ops, model.Op{K: model.OpWrite, Path: model.PathUnsafe, E: wb[0], Cs: B})
		}
		for _, e := range pick(m.Alive()) {
			ops = append(ops, model.Op{K: model.OpRemoveEntity, E: e})
		}
		if o.batch {
			bp := o.path
			if bp == model.PathUnsafe {
				bp = model.PathMapN
			}
			ops = append(ops,
				model.Op{K: model.OpAddBatch, Path: bp, F: 2, Cs: B, Init: model.InitFn, Fn: true},
				model.Op{K: model.OpRemoveBatch, Path: bp, F: 1, Rm: B, Fn: true},
				model.Op{K: model.OpRemoveEntities, F: 1, Fn: true},
			)
		}
		if o.shrink {
			ops = append(ops, model.Op{K: model.OpShrink})
		}
		if o.reset {
			ops = append(ops, model.Op{K: model.OpReset})
		}
		if o.gc {
			ops = append(ops, model.Op{K: model.OpGC})
		}
		return validOnly(m, ops)
	}
}

func plainScenario(name string, o plainOpts, cf []drv.Config, depth int, or drv.Oracle, preludes [][]model.Op) *engine.Scenario {
	or.Family = plainFamily(o.a, o.b)
	return &engine.Scenario{
		Name: name, Cfgs: cf, Filters: plainFilters(o.a, o.b), Slots: 1, Oracle: or,
		Preludes: preludes, Alphabet: plainAlphabet(o), Depth: depth,
	}
}

func plainPreludes(a, b ct.Comp, path model.Path) [][]model.Op {
	if path == model.PathExchange {
		path = model.PathMapN
	}
	nA := model.Op{K: model.OpNew, Path: path, Cs: ct.Of(a)}
	return [][]model.Op{
		nil,
		{nA, nA, nA, {K: model.OpAdd, Path: model.PathUnsafe, E: 1, Cs: ct.Of(b)}},
		{nA, nA, {K: model.OpRemoveEntity, E: 0}, nA, {K: model.OpAdd, Path: model.PathUnsafe, E: 2, Cs: ct.Of(b)}, {K: model.OpRemoveEntity, E: 1}},
	}
}

var worldOracle = drv.Oracle{World: true, Typed: true, Filters: true, Lock: true}

func init() {
	Registry["C01"] = func(t Tier) *Check {
		d := 5
		if t == Thorough {
			d = 6
		}
		uPQ := []ct.Comp{ct.P, ct.Q, ct.T9}
		uKinds := []ct.Comp{ct.S, ct.Z, ct.L, ct.T9}
		one := []api.RelMode{api.RelByIdx}
		var scs []*engine.Scenario
		// S1 plain moves, every API path, capacities, ID placements
		for _, path := range []model.Path{model.PathMapN, model.PathMap, model.PathExchange, model.PathUnsafe} {
			o := plainOpts{a: ct.P, b: ct.Q, c: ct.NumComps, path: path, maxAlive: 4, copyOp: true}
			var cf []drv.Config
			if path == model.PathMapN {
				cf = append(cfgs([]int{1, 8}, []int{0}, one, uPQ), cfgs([]int{2}, []int{62, 126, 190, 250}, one, uPQ)...)
				if t == Thorough {
					cf = cfgs([]int{1, 2, 8}, []int{0, 62, 126, 190, 250}, one, uPQ)
				}
				cf = append(cf, cfgs([]int{1}, []int{61, 125}, one, uPQ)...) // exactly 64 / 128 registered types
				cf = autoPad(cf, 1, 2)
			} else {
				cf = cfgs([]int{1}, []int{0, 63}, one, uPQ)
			}
			scs = append(scs, plainScenario("C01-S1-plain/"+path.String(), o, cf, d, worldOracle, plainPreludes(ct.P, ct.Q, path)))
		}
		// S2 kinds: pointer bearing, zero size, large
		for _, ab := range [][2]ct.Comp{{ct.S, ct.Z}, {ct.L, ct.S}, {ct.Z, ct.L}} {
			for _, path := range []model.Path{model.PathMapN, model.PathUnsafe} {
				o := plainOpts{a: ab[0], b: ab[1], c: ct.NumComps, path: path, maxAlive: 4, copyOp: true, nilInit: true}
				// pointer-bearing values are also moved table-wise (batch) into non-empty tables
				o.batch = ab[0] == ct.S && path == model.PathMapN
				scs = append(scs, plainScenario("C01-S2-kinds/"+ab[0].String()+ab[1].String()+"/"+path.String(), o,
					cfgs([]int{1}, []int{0}, one, uKinds), d, worldOracle, plainPreludes(ab[0], ab[1], path)))
			}
		}
		// S3 relation moves
		scs = append(scs, &engine.Scenario{
			Name: "C01-S3-relations/mapN", Cfgs: autoPad(cfgs([]int{1}, []int{0, 63}, one, relUniverse), 1), Filters: relFilters(), Slots: 1,
			Oracle:   drv.Oracle{World: true, Typed: true, Filters: true, Lock: true},
			Preludes: relPreludes(model.PathMapN)[2:4],
			Alphabet: relAlphabet(relOpts{path: model.PathMapN, maxAlive: 5, two: true, nTargets: 2}), Depth: d,
		})
		// S6 archetype graph: add / remove / exchange of every component subset over {P,Q,T9}
		scs = append(scs, &engine.Scenario{
			Name: "C01-S6-graph", Cfgs: autoPad(cfgs([]int{1}, []int{0}, one, uPQ), 2, 1), Filters: plainFilters(ct.P, ct.Q), Slots: 1,
			Oracle:   func() drv.Oracle { o := worldOracle; o.Family = plainFamily(ct.P, ct.Q); return o }(),
			Alphabet: graphAlphabet([]ct.Comp{ct.P, ct.Q, ct.T9}, 3), Depth: d,
		})
		// S4 batch moves, S5 reset/shrink interleaved
		ob := plainOpts{a: ct.P, b: ct.Q, c: ct.NumComps, path: model.PathMapN, maxAlive: 5, batch: true, shrink: true, reset: true}
		scs = append(scs, plainScenario("C01-S4S5-batch-reset-shrink/mapN", ob, cfgs([]int{1, 2}, []int{0}, one, uPQ), d, worldOracle, plainPreludes(ct.P, ct.Q, model.PathMapN)))
		obx := ob
		obx.path = model.PathExchange
		scs = append(scs, plainScenario("C01-S4S5-batch-reset-shrink/exchange", obx, cfgs([]int{1}, []int{0}, one, uPQ), d, worldOracle, plainPreludes(ct.P, ct.Q, model.PathMapN)[:2]))
		// large configurations (> 64 rows per table, > 128 archetypes)
		scs = append(scs, scaleRows(d-2)...)
		scs = append(scs, scaleArchetypes(d-2))
		return &Check{ID: "C01", Scenarios: scs,
			Rule: "all histories over five alphabets (plain moves through MapN / Map / ExchangeN / ID-based API; pointer-bearing, zero-size and large components; relation moves; batch moves; Reset and Shrink interleaved) with entity selectors oldest/middle/newest, from 3 preludes, capacities {1,2,8}, component ID offsets {0,62,63,126,190,250}; after every history the whole world (every entity, component set, value via Unsafe.Get and Map.Get, query Get pointers) is compared with the model; distinct = distinct model states; non-trivial = >=1 alive entity"}
	}
}

// graphAlphabet: every non-empty subset of the universe is added / removed / exchanged in one
// operation (multi-component transitions exercise the archetype graph's cached edges).
func graphAlphabet(u []ct.Comp, maxAlive int) func(m *model.Model) []model.Op {
	subs := subsets(u)
	return func(m *model.Model) []model.Op {
		var ops []model.Op
		if limitAlive(m, maxAlive) {
			for _, s := range subs {
				if s != 0 && s.Len() != 2 {
					ops = append(ops, model.Op{K: model.OpNew, Path: model.PathUnsafe, Cs: s})
				}
			}
		}
		k := 0
		for _, e := range pick2(m.Alive()) {
			cs := m.Ents[e].Comps
			for _, s := range subs {
				if s == 0 {
					continue
				}
				k++
				path := model.PathUnsafe
				if k%2 == 0 {
					path = model.PathMapN
				}
				if cs&s == 0 {
					ops = append(ops, model.Op{K: model.OpAdd, Path: path, E: e, Cs: s})
				}
				if cs&s == s {
					ops = append(ops, model.Op{K: model.OpRemove, Path: path, E: e, Rm: s})
				}
			}
			// exchanges: add everything missing / remove one present, and vice versa
			all := ct.Of(u...)
			miss := all &^ cs
			for _, c := range cs.List() {
				if miss != 0 {
					ops = append(ops, model.Op{K: model.OpExchange, Path: path2(k), E: e, Cs: miss, Rm: ct.Of(c)})
				}
			}
			for _, c := range miss.List() {
				if cs != 0 {
					ops = append(ops, model.Op{K: model.OpExchange, Path: path2(k + 1), E: e, Cs: ct.Of(c), Rm: cs})
				}
			}
			ops = append(ops, model.Op{K: model.OpRemoveEntity, E: e})
		}
		return validOnly(m, ops)
	}
}

func path2(k int) model.Path {
	if k%2 == 0 {
		return model.PathUnsafe
	}
	return model.PathMapN
}
