package props

import (
	"fmt"
	"reflect"
	"sort"
	"unsafe"

	"github.com/mlange-42/ark/ecs"

	"verif/mc/api"
	"verif/mc/ct"
	"verif/mc/drv"
	"verif/mc/engine"
	"verif/mc/model"
)

var int8T = reflect.TypeFor[int8]()

type lateComp struct{ V int64 }

type earlyComp struct{ V int64 }

type relDummy struct {
	ecs.RelationMarker
	V int32
}

// dummyType k (0-based) is [k+1]int8: distinct types of distinct sizes.
func dummyType(k int) reflect.Type { return reflect.ArrayOf(k+1, int8T) }

var lastPanic any

func tryDo(f func()) (panicked bool) {
	defer func() {
		if r := recover(); r != nil {
			panicked = true
			lastPanic = r
		}
	}()
	f()
	return
}

// registryCase: register n types in the given order pattern, then exercise the registry and the IDs.
// order: 0 ascending, 1 descending type index, 2 interleaved with entity creation and resource registration.
func registryCase(n, order int) (steps int, v *drv.Violation) {
	fail := func(format string, a ...any) (int, *drv.Violation) {
		return steps, viol("registry", steps, "n=%d order=%d: %s", n, order, fmt.Sprintf(format, a...))
	}
	w := ecs.NewWorld(2)
	typeOf := func(i int) reflect.Type { // i-th registered type
		if order == 1 {
			return dummyType(MaxComps + 1 - i)
		}
		return dummyType(i)
	}
	type ent struct {
		e    ecs.Entity
		set  []int
		tag  int
		bare bool // created during registration: no value written
	}
	var ents []ent
	ids := make([]ecs.ID, 0, n)
	var resSeen []ecs.ResID
	// order 2, n >= 2: the first registered type is a relation component, and three relation tables exist
	// (tables outnumber archetypes) while all later types are registered
	relFirst := order == 2 && n >= 2
	if relFirst {
		base := typeOf
		typeOf = func(i int) reflect.Type {
			if i == 0 {
				return thRel(11)
			}
			return base(i)
		}
	}
	// type #1 is a static Go type; a typed mapper and filter for it are created right after its registration,
	// i.e. before all the other types exist, and used at the very end
	earlyAt := -1
	if n >= 3 {
		earlyAt = 1
		base := typeOf
		typeOf = func(i int) reflect.Type {
			if i == earlyAt {
				return reflect.TypeFor[earlyComp]()
			}
			return base(i)
		}
	}
	var earlyMap *ecs.Map1[earlyComp]
	var earlyFilter *ecs.Filter1[earlyComp]
	var relChildren []ecs.Entity
	var relTargets []ecs.Entity
	for i := 0; i < n; i++ {
		steps++
		var id ecs.ID
		if tryDo(func() { id = ecs.TypeID(w, typeOf(i)) }) {
			return fail("registering type #%d (of max %d) panicked", i+1, MaxComps)
		}
		if i == earlyAt {
			earlyMap = ecs.NewMap1[earlyComp](w)
			earlyFilter = ecs.NewFilter1[earlyComp](w)
		}
		if relFirst && i == 0 {
			for k := 0; k < 3; k++ {
				tg := w.NewEntity()
				relTargets = append(relTargets, tg)
				relChildren = append(relChildren, w.Unsafe().NewEntityRel([]ecs.ID{id}, ecs.RelID(id, tg)))
			}
		}
		for j, old := range ids {
			if old == id {
				return fail("type #%d got ID %d, which type #%d already has", i, id.Index(), j)
			}
		}
		ids = append(ids, id)
		if order == 2 && i%7 == 3 {
			// interleave: resources have their own registry; entities use the newest ID
			rid := ecs.ResourceTypeID(w, typeOf(i))
			if rid2 := ecs.ResourceTypeID(w, typeOf(i)); rid2 != rid {
				return fail("resource type %d maps to ID %d and then to ID %d", i, rid.Index(), rid2.Index())
			}
			for _, prev := range resSeen {
				if prev == rid {
					return fail("two resource types share ID %d", rid.Index())
				}
			}
			resSeen = append(resSeen, rid)
			var e ecs.Entity
			if tryDo(func() { e = w.Unsafe().NewEntity(id) }) {
				return fail("creating an entity with the newest ID %d panicked (%d types registered)", i, i+1)
			}
			ents = append(ents, ent{e: e, set: []int{i}, bare: true})
		}
	}
	// stability and injectivity
	for i := 0; i < n; i++ {
		steps++
		if id := ecs.TypeID(w, typeOf(i)); id != ids[i] {
			return fail("re-requesting type #%d returned ID %d, first time %d", i, id.Index(), ids[i].Index())
		}
		info, ok := ecs.ComponentInfo(w, ids[i])
		if !ok || info.Type != typeOf(i) || info.ID != ids[i] || info.IsRelation != (relFirst && i == 0) {
			return fail("ComponentInfo(%d) = %+v ok=%v, expected type %v", i, info, ok, typeOf(i))
		}
	}
	all := ecs.ComponentIDs(w)
	if len(all) != n {
		return fail("ComponentIDs has %d entries, %d types registered", len(all), n)
	}
	for _, id := range ids {
		found := false
		for _, a := range all {
			found = found || a == id
		}
		if !found {
			return fail("ComponentIDs does not list ID %d", id.Index())
		}
	}
	if n < MaxComps {
		if n > 0 {
			if _, ok := ecs.ComponentInfo(w, ecs.ComponentIDs(w)[0]); !ok {
				return fail("ComponentInfo(0) not ok")
			}
		}
	}
	// a relation component registered last: a rejected registration must not disturb it
	relLast := order == 0 && n >= 1 && n < MaxComps-1
	var relID ecs.ID
	if relLast {
		relID = ecs.ComponentID[relDummy](w)
		for _, old := range ids {
			if old == relID {
				return fail("relation type registered as #%d got the used ID %d", n, relID.Index())
			}
		}
		ids = append(ids, relID)
		n++
	}
	// locked world: registration must panic without consuming an ID
	f0 := ecs.NewFilter0(w)
	q := f0.Query()
	steps++
	extra := dummyType(MaxComps + 5)
	if !tryDo(func() { ecs.TypeID(w, extra) }) {
		q.Close()
		return fail("registering a new component type on a locked world did not panic")
	}
	if got := len(ecs.ComponentIDs(w)); got != n {
		q.Close()
		return fail("failed registration on a locked world left %d IDs (was %d)", got, n)
	}
	// known types can still be looked up on a locked world
	if n > 0 {
		if id := ecs.TypeID(w, typeOf(0)); id != ids[0] {
			q.Close()
			return fail("lookup of a known type on a locked world returned %d", id.Index())
		}
	}
	q.Close()
	if relLast {
		steps++
		info, ok := ecs.ComponentInfo(w, relID)
		if !ok || !info.IsRelation {
			return fail("after a rejected registration on a locked world ComponentInfo(%d).IsRelation=%v ok=%v for a relation component", relID.Index(), info.IsRelation, ok)
		}
		tgt := w.NewEntity()
		if tryDo(func() { w.Unsafe().NewEntityRel([]ecs.ID{relID}, ecs.RelID(relID, tgt)) }) {
			return fail("creating an entity with relation component %d and a target panicked after a rejected registration", relID.Index())
		}
		w.RemoveEntities(ecs.NewFilter0(w).Batch(), nil)
	}
	if n < MaxComps {
		steps++
		var id ecs.ID
		if tryDo(func() { id = ecs.TypeID(w, extra) }) {
			return fail("registering type #%d after a rejected registration panicked", n+1)
		}
		for _, old := range ids {
			if old == id {
				return fail("type registered after a rejected registration got the used ID %d", id.Index())
			}
		}
		if got := len(ecs.ComponentIDs(w)); got != n+1 {
			return fail("after a rejected and a successful registration %d IDs are in use, expected %d (an ID was consumed)", got, n+1)
		}
		ids = append(ids, id)
		n++
	}
	// beyond the maximum
	if n == MaxComps {
		steps++
		if !tryDo(func() { ecs.TypeID(w, dummyType(MaxComps+9)) }) {
			return fail("registering type #%d did not panic", MaxComps+1)
		}
		if got := len(ecs.ComponentIDs(w)); got != MaxComps {
			return fail("after the rejected registration #%d ComponentIDs has %d entries", MaxComps+1, got)
		}
		if id := ecs.TypeID(w, typeOf(3)); id != ids[3] {
			return fail("lookup after overflow returned %d for type #3", id.Index())
		}
	}
	// usability of IDs: entity sets
	var sets [][]int
	single := []int{0, 1, 2, 31, 62, 63, 64, 65, 126, 127, 128, 129, 190, 191, 192, 193, 254, 255}
	if n == MaxComps {
		single = nil
		for i := 0; i < n; i++ {
			single = append(single, i)
		}
	}
	for _, i := range single {
		if i < n {
			sets = append(sets, []int{i})
		}
	}
	for _, p := range [][]int{{63, 64}, {127, 128}, {191, 192}, {0, n - 1}, {n - 2, n - 1}, {62, 63, 64, 65}, {0, 63, 64, 127, 128, 191, 192, 255}, {1, 70, 140, 210}} {
		ok := true
		seen := map[int]bool{}
		for _, i := range p {
			if i < 0 || i >= n || seen[i] {
				ok = false
			}
			seen[i] = true
		}
		if ok {
			sets = append(sets, p)
		}
	}
	u := w.Unsafe()
	if relLast || relFirst {
		// the relation component needs a target: keep it out of the plain sets
		var keep [][]int
		for _, set := range sets {
			has := false
			for _, i := range set {
				has = has || (relLast && ids[i] == relID) || (relFirst && i == 0)
			}
			if !has {
				keep = append(keep, set)
			}
		}
		sets = keep
	}
	for si, set := range sets {
		steps++
		idl := make([]ecs.ID, len(set))
		for k, i := range set {
			idl[k] = ids[i]
		}
		var e ecs.Entity
		if tryDo(func() { e = u.NewEntity(idl...) }) {
			return fail("creating an entity with component IDs %v panicked (%d types registered): %v", set, n, lastPanic)
		}
		// write a recognisable first byte into every component
		for _, i := range set {
			p := u.Get(e, ids[i])
			*(*int8)(p) = int8(si + i)
		}
		ents = append(ents, ent{e: e, set: set, tag: si})
	}
	for _, en := range ents {
		si := en.tag
		steps++
		got := u.IDs(en.e)
		var gl []int
		for k := 0; k < got.Len(); k++ {
			gl = append(gl, int(got.Get(k).Index()))
		}
		sort.Ints(gl)
		want := append([]int(nil), en.set...)
		sort.Ints(want)
		if fmt.Sprint(gl) != fmt.Sprint(want) {
			return fail("entity created with IDs %v reports IDs %v", want, gl)
		}
		for _, i := range en.set {
			if !u.Has(en.e, ids[i]) {
				return fail("entity with IDs %v: Has(%d) false", en.set, i)
			}
			if b := *(*int8)(u.Get(en.e, ids[i])); !en.bare && b != int8(si+i) {
				return fail("entity with IDs %v: component %d holds %d, wrote %d", en.set, i, b, int8(si+i))
			}
		}
		for _, i := range []int{0, 63, 64, n - 1} {
			if i >= 0 && i < n {
				in := false
				for _, j := range en.set {
					in = in || j == i
				}
				if u.Has(en.e, ids[i]) != in {
					return fail("entity with IDs %v: Has(%d)=%v", en.set, i, !in)
				}
			}
		}
		// exclusive filter over exactly this set finds exactly the entities created with this set
		idl := make([]ecs.ID, len(en.set))
		for k, i := range en.set {
			idl[k] = ids[i]
		}
		wantN := 0
		for _, o := range ents {
			if fmt.Sprint(sorted(o.set)) == fmt.Sprint(want) {
				wantN++
			}
		}
		uf := ecs.NewUnsafeFilter(w, idl...).Exclusive()
		uq := uf.Query()
		cnt := 0
		found := false
		for uq.Next() {
			cnt++
			if uq.Entity() == en.e {
				found = true
				if p := uq.Get(idl[0]); p != u.Get(en.e, idl[0]) {
					uq.Close()
					return fail("query Get for ID %d differs from random access", en.set[0])
				}
			}
			if cnt > len(ents)+2 {
				uq.Close()
				break
			}
		}
		if !found || cnt != wantN {
			return fail("exclusive filter for IDs %v visited %d entities (found own=%v), expected %d", en.set, cnt, found, wantN)
		}
		// non-exclusive filter with an exclusion
		if len(en.set) == 1 && n > 1 {
			other := (en.set[0] + 1) % n
			uf2 := ecs.NewUnsafeFilter(w, idl...).Without(ids[other])
			q2 := uf2.Query()
			c2 := q2.Count()
			q2.Close()
			exp := 0
			for _, o := range ents {
				has, hasO := false, false
				for _, j := range o.set {
					has = has || j == en.set[0]
					hasO = hasO || j == other
				}
				if has && !hasO {
					exp++
				}
			}
			if c2 != exp {
				return fail("filter with(%d) without(%d) counts %d, expected %d", en.set[0], other, c2, exp)
			}
		}
	}
	for k, c := range relChildren {
		steps++
		if !w.Alive(c) || u.GetRelation(c, ids[0]) != relTargets[k] {
			return fail("relation child %d (created before the other types were registered) lost its target", k)
		}
	}
	if earlyMap != nil {
		// the mapper and filter created when only two types were registered, on a table created now
		steps++
		var v *drv.Violation
		if tryDo(func() {
			e := earlyMap.NewEntity(&earlyComp{V: 77})
			u.Add(e, ids[n-1])
			if p := earlyMap.Get(e); p == nil || p.V != 77 {
				_, v = fail("mapper created before %d further types were registered: Get on a new table does not return the stored value", n-2)
				return
			}
			if unsafe.Pointer(earlyMap.Get(e)) != u.Get(e, ids[earlyAt]) {
				_, v = fail("mapper created before %d further types were registered: Get differs from Unsafe.Get", n-2)
				return
			}
			q := earlyFilter.Query()
			found := false
			for q.Next() {
				if q.Entity() == e {
					found = q.Get().V == 77
				}
			}
			if !found {
				_, v = fail("filter created before %d further types were registered does not yield the entity (with its value) from a table created afterwards", n-2)
			}
			w.RemoveEntity(e)
		}) {
			return fail("using a mapper/filter created before %d further types were registered panicked: %v", n-2, lastPanic)
		}
		if v != nil {
			return steps, v
		}
	}
	if relFirst && len(ecs.ComponentIDs(w)) < MaxComps {
		// a statically typed component used (and thereby registered) for the first time now, through the typed API
		steps++
		var v *drv.Violation
		if tryDo(func() {
			m := ecs.NewMap1[lateComp](w)
			e1 := m.NewEntity(&lateComp{V: 100})
			e2 := m.NewEntity(&lateComp{V: 200})
			if p := m.Get(e1); p == nil || p.V != 100 {
				_, v = fail("late registered component: Map1.Get of the first entity does not return the value it was created with")
				return
			}
			if p := m.Get(e2); p == nil || p.V != 200 {
				_, v = fail("late registered component: Map1.Get of the second entity does not return the value it was created with")
				return
			}
			for k, c := range relChildren {
				if m.HasAll(c) || m.Get(c) != nil {
					_, v = fail("late registered component: relation child %d appears to have it", k)
					return
				}
			}
			q := ecs.NewFilter1[lateComp](w).Query()
			cnt, seen := q.Count(), 0
			for q.Next() {
				seen++
				if got := q.Get(); got != m.Get(q.Entity()) {
					_, v = fail("late registered component: query pointer differs from Map1.Get")
				}
			}
			if v == nil && (cnt != 2 || seen != 2) {
				_, v = fail("late registered component: filter counts %d and visits %d entities, expected 2", cnt, seen)
			}
		}) {
			return fail("valid use of a component registered after relation tables existed panicked: %v", lastPanic)
		}
		if v != nil {
			return steps, v
		}
	}
	_ = unsafe.Pointer(nil)
	return steps, nil
}

func sorted(a []int) []int {
	b := append([]int(nil), a...)
	sort.Ints(b)
	return b
}

// RegistrySweep runs all registry cases of the current build.
func RegistrySweep() (cases, steps int, found []*drv.Violation) {
	ns := []int{0, 1, 2, 62, 63, 64, 65, 127, 128, 191, 192, 254, 255, 256}
	for _, n := range ns {
		if n > MaxComps {
			continue
		}
		for order := 0; order < 3; order++ {
			cases++
			var v *drv.Violation
			var s int
			func() {
				defer func() {
					if r := recover(); r != nil {
						v = viol("registry", 0, "n=%d order=%d: unexpected panic: %v", n, order, r)
					}
				}()
				s, v = registryCase(n, order)
			}()
			steps += s
			if v != nil {
				found = append(found, v)
			}
		}
	}
	return
}

func init() {
	Registry["C18"] = func(t Tier) *Check {
		d := 6
		if t == Thorough {
			d = 8
		}
		// resources behave as a map from type to value
		resAlpha := func(m *model.Model) []model.Op {
			var ops []model.Op
			for n := 0; n < 3; n++ {
				ops = append(ops, model.Op{K: model.OpResAdd, N: n}, model.Op{K: model.OpResRemove, N: n})
			}
			ops = append(ops, model.Op{K: model.OpReset})
			return validOnly(m, ops)
		}
		resProbes := func(x *drv.World) []model.Op {
			// adding an existing / removing an absent resource must panic without effect
			var ops []model.Op
			for n := 0; n < 3; n++ {
				if x.M.Res[n] != 0 {
					ops = append(ops, model.Op{K: model.OpInvalid, Inv: drv.InvResAdd, N: n})
				} else {
					ops = append(ops, model.Op{K: model.OpInvalid, Inv: drv.InvResRemove, N: n})
				}
			}
			return ops
		}
		sc := &engine.Scenario{
			Name: "C18-resources", Cfgs: cfgs([]int{1}, []int{0}, []api.RelMode{api.RelByIdx}, []ct.Comp{ct.P}),
			Slots: 1, Oracle: drv.Oracle{Res: true}, Alphabet: resAlpha, Probes: resProbes, Depth: d,
			NonTrivial: func(x *drv.World) bool { return x.M.Res != [4]int64{} },
		}
		chk := &Check{ID: "C18", Scenarios: []*engine.Scenario{sc},
			Rule: fmt.Sprintf("registry: for n in {0,1,2,62,63,64,65,127,128,191,192,254,255,256} (<= %d in this build) x 3 registration orders (ascending, other types, interleaved with resource registration and entity creation): IDs stable and injective; ComponentIDs/ComponentInfo/TypeID agree; registration on a locked world panics and consumes no ID; registration max+1 panics; every boundary ID (at n=max: every single ID), boundary pairs, 4- and 8-ID sets across all mask words are used in entities (values written and read back), exclusive filters, filters with exclusions and queries; resource registry: for n in {0,1,2,63,64,65,127,128,129,192,255,256} x 2 orders the same for resource types, then Add/Has/Get/Remove as a map on every boundary resource ID (at n=max: on every ID) with rejected duplicate Add / absent Remove, 257th resource type rejected; generic entry points (ResourceID[T], ComponentID[T], NewResource[T], C[T]) agree with the reflect.Type based ones for struct, pointer, function, slice and 5 interface types, interface-typed resources/components are independent entries; the same sweeps are run in a binary built with -tags ark_tiny (max 64). resources: all Add/Remove/Reset histories over 3 resource types up to depth %d against a map, with rejected duplicate Add / absent Remove at every node; non-trivial = >=1 resource present", MaxComps, d),
		}
		chk.Special = func(tier Tier, rep *engine.Report) error {
			cases, steps, found := RegistrySweep()
			c2, s2, f2 := ResourceSweep()
			cases, steps, found = cases+c2, steps+s2, append(found, f2...)
			rep.Histories += int64(cases)
			rep.Transitions += int64(steps)
			rep.States += int64(cases)
			rep.NonTrivial += int64(cases)
			rep.PerConfig = append(rep.PerConfig, fmt.Sprintf("C18 registry sweep (max %d): cases=%d steps=%d", MaxComps, cases, steps))
			rep.Samples = append(rep.Samples, "registry case n=256 order=2: register 256 types interleaved with resource registration and entity creation; reject on locked world; reject 257th; entities with every single ID, pairs (63,64) (127,128) (191,192) (0,255), 8 IDs in 4 words; exclusive filters and exclusions")
			for _, v := range found {
				rep.Found = append(rep.Found, engine.Found{Scenario: "C18-registry", V: *v, OpKind: "registry"})
			}
			if err := subBuildSweep("C18", "ark_tiny", rep); err != nil {
				return err
			}
			return nil
		}
		return chk
	}
}
