package props

import (
	"verif/mc/api"
	"verif/mc/ct"
	"verif/mc/drv"
	"verif/mc/engine"
	"verif/mc/model"
)

var relUniverse = []ct.Comp{ct.P, ct.R1, ct.R2, ct.Q}

// relOpts parametrises the relation alphabet (S3 of DESIGN appendix B).
type relOpts struct {
	path     model.Path
	maxAlive int
	shrink   bool
	reset    bool
	batch    bool // RemoveEntities / SetRelBatch over scenario filters 0.. (see relFilters)
	two      bool // entities with two relation components
	stats    bool
	nTargets int
	self     bool // allow an entity to be its own relation target
	newest   bool // the newest alive entity is a possible target, too (it may carry a recycled id)
	fixed    bool // batch removal through filter f2 of relFilters() (fixed target #0) and NewBatch; only for scenarios whose filters are relFilters()
}

// relFilters are the persistent filters used by the relation scenarios.
//
//	f0: Filter1[R1]            f1: Filter0.With(P)       f2: Filter2[P,R1] relations R1->#0 (fixed)
//	f3: Filter1[R1] exclusive{R1,P}... (see below)
func relFilters() []model.FilterSpec {
	return []model.FilterSpec{
		{Params: []ct.Comp{ct.R1}},
		{With: ct.Of(ct.P)},
		{Params: []ct.Comp{ct.P, ct.R1}, Rels: rel(ct.R1, 0)},
		{Params: []ct.Comp{ct.R1}, With: ct.Of(ct.P), Exclusive: true},
		{Params: []ct.Comp{ct.R1, ct.R2}, Unsafe: true},
	}
}

func relAlphabet(o relOpts) func(m *model.Model) []model.Op {
	if o.nTargets == 0 {
		o.nTargets = 2
	}
	return func(m *model.Model) []model.Op {
		var ops []model.Op
		tg := targets(m, o.nTargets)
		if al := m.Alive(); o.newest && len(al) > 0 {
			last, have := al[len(al)-1], false
			for _, t := range tg {
				have = have || t == last
			}
			if !have && m.Ents[last].Comps == ct.Of(ct.P) {
				tg = append(tg, last)
			}
		}
		canNew := limitAlive(m, o.maxAlive)
		if canNew {
			ops = append(ops, model.Op{K: model.OpNew, Path: o.path, Cs: ct.Of(ct.P)})
			for _, t := range tg {
				ops = append(ops, model.Op{K: model.OpNew, Path: o.path, Cs: ct.Of(ct.P, ct.R1), T: rel(ct.R1, t)})
			}
			if o.two && len(tg) >= 3 {
				ops = append(ops, model.Op{K: model.OpNew, Path: o.path, Cs: ct.Of(ct.R1, ct.R2),
					T: []model.RelT{{C: ct.R1, T: tg[1]}, {C: ct.R2, T: tg[2]}}})
				ops = append(ops, model.Op{K: model.OpNew, Path: o.path, Cs: ct.Of(ct.R1, ct.R2),
					T: []model.RelT{{C: ct.R1, T: tg[2]}, {C: ct.R2, T: tg[2]}}})
			}
		}
		r1 := with(m, ct.Of(ct.R1))
		for _, e := range pick2(r1) {
			for _, t := range tg {
				if m.Ents[e].Tgt[ct.R1] != t && (t != e || o.self) {
					ops = append(ops, model.Op{K: model.OpSetRel, Path: o.path, E: e, T: rel(ct.R1, t)})
				}
			}
		}
		if o.two {
			for _, e := range pick2(with(m, ct.Of(ct.R2))) {
				for _, t := range tg[:min(2, len(tg))] {
					if m.Ents[e].Tgt[ct.R2] != t && t != e {
						ops = append(ops, model.Op{K: model.OpSetRel, Path: o.path, E: e, T: rel(ct.R2, t)})
					}
				}
			}
		}
		for _, e := range pick2(without(m, ct.Of(ct.R1))) {
			if len(tg) > 1 && (tg[1] != e || o.self) {
				ops = append(ops, model.Op{K: model.OpAdd, Path: o.path, E: e, Cs: ct.Of(ct.R1), T: rel(ct.R1, tg[1])})
			}
		}
		for _, e := range pick2(r1) {
			ops = append(ops, model.Op{K: model.OpRemove, Path: o.path, E: e, Rm: ct.Of(ct.R1)})
		}
		for _, e := range pick(m.Alive()) {
			ops = append(ops, model.Op{K: model.OpRemoveEntity, E: e})
		}
		if o.batch {
			ops = append(ops, model.Op{K: model.OpRemoveEntities, F: 0, Fn: true})
			ops = append(ops, model.Op{K: model.OpRemoveEntities, F: 1})
			// through the filter with a fixed target (#0), also when that handle is stale and its id re-used
			if o.fixed {
				ops = append(ops, model.Op{K: model.OpRemoveEntities, F: 2})
			}
			if o.fixed && canNew {
				// batch creation: recycled ids land in rows of an existing table
				ops = append(ops, model.Op{K: model.OpNewBatch, Path: model.PathMapN, Cs: ct.Of(ct.P), N: 2})
			}
			for _, t := range tg {
				if t >= 0 {
					ops = append(ops, model.Op{K: model.OpRemoveEntities, F: 0, QT: rel(ct.R1, t)})
					ops = append(ops, model.Op{K: model.OpSetRelBatch, Path: model.PathMapN, F: 0, T: rel(ct.R1, t), Fn: true})
				}
			}
		}
		if o.shrink {
			ops = append(ops, model.Op{K: model.OpShrink})
		}
		if o.reset {
			ops = append(ops, model.Op{K: model.OpReset})
		}
		if o.stats {
			ops = append(ops, model.Op{K: model.OpStats})
		}
		return validOnly(m, ops)
	}
}

// relPreludes: non-initial states (two targets with children, an emptied table, a freed table, a chain).
func relPreludes(path model.Path) [][]model.Op {
	newP := model.Op{K: model.OpNew, Path: path, Cs: ct.Of(ct.P)}
	child := func(t int) model.Op {
		return model.Op{K: model.OpNew, Path: path, Cs: ct.Of(ct.P, ct.R1), T: rel(ct.R1, t)}
	}
	return [][]model.Op{
		nil,
		{newP, newP},
		{newP, newP, child(0), child(0), child(1)},
		{newP, newP, child(0), {K: model.OpRemoveEntity, E: 2}},                      // T1's table emptied
		{newP, newP, child(0), {K: model.OpRemoveEntity, E: 2}, {K: model.OpShrink}}, // ... and freed
		{newP, child(0), child(1)},                                                   // chain: #2 -> #1 -> #0
	}
}

func relFamily() []model.FilterSpec {
	return []model.FilterSpec{
		{},
		{Params: []ct.Comp{ct.R1}},
		{Params: []ct.Comp{ct.P}, Without: ct.Of(ct.R1)},
		{Params: []ct.Comp{ct.R1}, Rels: rel(ct.R1, model.ZeroTarget)},
		{Params: []ct.Comp{ct.P, ct.R1}, Rels: rel(ct.R1, 0)},
		{Params: []ct.Comp{ct.R1}, Rels: rel(ct.R1, 1)},
		{With: ct.Of(ct.R1), Rels: rel(ct.R1, 1)},
		{Params: []ct.Comp{ct.R1}, Rels: rel(ct.R1, 1), Unsafe: true},
		{Params: []ct.Comp{ct.R1, ct.R2}, Rels: []model.RelT{{C: ct.R1, T: 0}, {C: ct.R2, T: 1}}},
		{Params: []ct.Comp{ct.R2}, Rels: rel(ct.R2, 1)},
	}
}

func init() {
	Registry["C04"] = func(t Tier) *Check {
		depth := 4
		if t == Thorough {
			depth = 5
		}
		var scs []*engine.Scenario
		for _, path := range []model.Path{model.PathMapN, model.PathUnsafe} {
			caps := []int{1, 2}
			if path == model.PathUnsafe {
				caps = []int{1}
			}
			cf := cfgs(caps, []int{0}, []api.RelMode{api.RelByIdx}, relUniverse)
			if path == model.PathMapN {
				cf = autoPad(cf, 1, 2)
			}
			scs = append(scs, &engine.Scenario{
				Name:     "C04-relations/" + path.String(),
				Cfgs:     cf,
				Filters:  relFilters(),
				Slots:    1,
				Oracle:   drv.Oracle{World: true, Typed: true, Family: relFamily(), Filters: true, Lock: true},
				// the last prelude creates the filter object with the fixed target #0 while #0 is alive (the handle
				// inside the filter goes stale when #0 dies and its id is re-used)
				Preludes: append(relPreludes(path), append(append([]model.Op{}, relPreludes(path)[2]...), model.Op{K: model.OpTouch, F: 2})),
				Alphabet: relAlphabet(relOpts{path: path, maxAlive: 5, shrink: true, reset: true, batch: true, two: true, nTargets: 2, newest: path == model.PathUnsafe, fixed: true}),
				Depth:    depth,
			})
		}
		// entities that are their own target, 2-cycles and chains
		scs = append(scs, &engine.Scenario{
			Name:     "C04-relations/self-and-cycles",
			Cfgs:     cfgs([]int{1}, []int{0}, []api.RelMode{api.RelByIdx}, relUniverse),
			Filters:  relFilters(),
			Slots:    1,
			Oracle:   drv.Oracle{World: true, Typed: true, Family: relFamily(), Filters: true, Lock: true},
			Preludes: [][]model.Op{relPreludes(model.PathMapN)[5], {{K: model.OpNew, Path: model.PathMapN, Cs: ct.Of(ct.P, ct.R1), T: rel(ct.R1, model.ZeroTarget)}, {K: model.OpNew, Path: model.PathMapN, Cs: ct.Of(ct.P, ct.R1), T: rel(ct.R1, 0)}, {K: model.OpSetRel, Path: model.PathMapN, E: 0, T: rel(ct.R1, 1)}}},
			Alphabet: relAlphabet(relOpts{path: model.PathMapN, maxAlive: 4, shrink: true, batch: true, nTargets: 2, self: true, fixed: true}),
			Depth:    depth,
		})
		// 36 targets / child tables: batch operations over more than 32 tables
		scs = append(scs, scaleTargets(depth-1, drv.Oracle{World: true, Typed: true, Filters: true, Lock: true, Stats: true})...)
		chk := &Check{ID: "C04", Scenarios: scs,
			Rule: "all histories over the relation alphabet (create child/target, set/add/remove relation, remove entity, batch removal by filter and target, batch retarget, Shrink, Reset) from 7 preludes (one of which creates the fixed-target filter object early); distinct = distinct model states; non-trivial = at least one alive entity holds a relation"}
		addThreshold(chk, "wide-entities", wideSweep, "threshold sweep: entities with r in {1,2,7,8,9,10} relation components and w in {0,...,15,16,17,18,31,32,33,40} other components (types synthesised by reflection): targets set, changed, dying singly and in a batch, plain components removed; expectation after every step")
		addThreshold(chk, "many-targets", manyTargetsSweep, "n in {2,...,255,256,257,258} targets removed by one RemoveEntities call, children reset to the zero target")
		return chk
	}
}
