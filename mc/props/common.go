// Package props defines, per property, the scenarios (alphabet, bounds, configurations,
// oracle selection) explored by the engine.
package props

import (
	"os"
	"verif/mc/api"
	"verif/mc/ct"
	"verif/mc/drv"
	"verif/mc/engine"
	"verif/mc/model"
)

// Tier is quick or thorough.
type Tier int

// Tiers.
const (
	Quick Tier = iota
	Thorough
)

// Check is the set of scenarios deciding one property.
type Check struct {
	ID        string
	Scenarios []*engine.Scenario
	// Special is a non-E1 check body (E2/E3/E4 or custom enumeration); it fills the report itself.
	Special func(tier Tier, rep *engine.Report) error
	// SpecialSharded: Special is run in every shard process and divides its work by Shard/NShard.
	SpecialSharded bool
	Replay         func(raw []byte) int  // replays a Special check's artefact
	Confirm        func(raw []byte) bool // re-runs a Special finding; true if it reproduces
	Rule           string                // how cases are enumerated / what counts as non-trivial
	Assume         []string
}

// Root is the directory of the verification machinery (default /verif; VERIF_ROOT overrides it so
// that a snapshot of the tree can run without touching the live one).
func Root() string {
	if r := os.Getenv("VERIF_ROOT"); r != "" {
		return r
	}
	return "/verif"
}

// Shard / NShard are set in shard processes (see Check.SpecialSharded).
var Shard, NShard = 0, 1

// Registry maps property id -> builder.
var Registry = map[string]func(t Tier) *Check{}

// pick returns distinct representatives oldest / middle / newest of a list.
func pick(xs []int) []int {
	switch len(xs) {
	case 0:
		return nil
	case 1:
		return xs[:1]
	case 2:
		return xs
	}
	return []int{xs[0], xs[len(xs)/2], xs[len(xs)-1]}
}

// pick2 returns oldest and newest.
func pick2(xs []int) []int {
	switch len(xs) {
	case 0:
		return nil
	case 1:
		return xs[:1]
	}
	return []int{xs[0], xs[len(xs)-1]}
}

func with(m *model.Model, cs ct.Set) []int {
	var out []int
	for _, i := range m.Alive() {
		if m.Ents[i].Comps&cs == cs {
			out = append(out, i)
		}
	}
	return out
}

func without(m *model.Model, cs ct.Set) []int {
	var out []int
	for _, i := range m.Alive() {
		if m.Ents[i].Comps&cs == 0 {
			out = append(out, i)
		}
	}
	return out
}

// first n alive entities (target candidates), preceded by the zero entity.
func targets(m *model.Model, n int) []int {
	out := []int{model.ZeroTarget}
	for _, i := range m.Alive() {
		if len(out) > n {
			break
		}
		out = append(out, i)
	}
	return out
}

func rel(c ct.Comp, t int) []model.RelT { return []model.RelT{{C: c, T: t}} }

func cfgs(caps []int, offsets []int, modes []api.RelMode, universe []ct.Comp) []drv.Config {
	var out []drv.Config
	for _, c := range caps {
		for _, o := range offsets {
			for _, md := range modes {
				out = append(out, drv.Config{Cap: c, Offset: o, RelMode: md, Universe: universe})
			}
		}
	}
	return out
}

// validOnly filters ops through the model's validity predicate (defensive: alphabets
// are written to produce valid ops only).
func validOnly(m *model.Model, ops []model.Op) []model.Op {
	out := ops[:0]
	for i := range ops {
		if m.Valid(&ops[i]) {
			out = append(out, ops[i])
		}
	}
	return out
}

func limitAlive(m *model.Model, max int) bool { return m.NumAlive() < max }

// withPad returns the configs plus copies with filler archetypes (table/archetype slices near capacity).
func withPad(cf []drv.Config, pads ...int) []drv.Config {
	out := append([]drv.Config{}, cf...)
	for _, p := range pads {
		c := cf[0]
		c.Pad = p
		out = append(out, c)
	}
	return out
}

// autoPad returns cf plus copies of its first config in which the explorer pads the world
// so that the table slice (mode 1) / archetype slice (mode 2) is full before the last operation.
func autoPad(cf []drv.Config, modes ...int) []drv.Config {
	out := append([]drv.Config{}, cf...)
	for _, m := range modes {
		c := cf[0]
		c.AutoPad = m
		out = append(out, c)
	}
	return out
}
