package props

import (
	"verif/mc/api"
	"verif/mc/ct"
	"verif/mc/drv"
	"verif/mc/engine"
	"verif/mc/model"
)

// staleKinds returns up to one model index per stale-handle kind:
// removed & id not reused, removed & id reused by a live entity, and the zero entity.
func staleKinds(x *drv.World) []int {
	m := x.M
	liveIDs := map[uint32]bool{}
	for _, i := range m.Alive() {
		liveIDs[x.H[i].ID()] = true
	}
	notReused, reused := -1, -1
	for i := m.EpochLo; i < len(m.Ents); i++ {
		if m.Ents[i].Alive {
			continue
		}
		if liveIDs[x.H[i].ID()] {
			if reused < 0 {
				reused = i
			}
		} else if notReused < 0 {
			notReused = i
		}
	}
	out := []int{model.ZeroTarget}
	if notReused >= 0 {
		out = append(out, notReused)
	}
	if reused >= 0 {
		out = append(out, reused)
	}
	return out
}

func staleOps(stale []int, path model.Path, tuple []ct.Comp) []model.Op {
	var ops []model.Op
	cs := ct.Of(tuple...)
	var relc []model.RelT
	for _, c := range tuple {
		if ct.IsRel(c) {
			relc = append(relc, model.RelT{C: c, T: model.ZeroTarget})
		}
	}
	for _, e := range stale {
		for _, mth := range []int{drv.MGet, drv.MHasAll, drv.MAdd, drv.MAddFn, drv.MSet, drv.MRemove} {
			ops = append(ops, model.Op{K: model.OpInvalid, Inv: drv.InvStale, N: mth, E: e, Path: path, Cs: cs, Ord: tuple, T: relc})
		}
		if len(relc) > 0 {
			ops = append(ops, model.Op{K: model.OpInvalid, Inv: drv.InvStale, N: drv.MGetRelation, E: e, Path: path, Cs: cs, Ord: tuple, T: relc[:1]})
			ops = append(ops, model.Op{K: model.OpInvalid, Inv: drv.InvStale, N: drv.MSetRelations, E: e, Path: path, Cs: cs, Ord: tuple, T: relc})
		}
	}
	return ops
}

func staleExOps(stale []int, path model.Path, tuple []ct.Comp, rm ct.Set) []model.Op {
	var ops []model.Op
	cs := ct.Of(tuple...)
	var relc []model.RelT
	for _, c := range tuple {
		if ct.IsRel(c) {
			relc = append(relc, model.RelT{C: c, T: model.ZeroTarget})
		}
	}
	for _, e := range stale {
		for _, mth := range []int{drv.MExAdd, drv.MExAddFn, drv.MExRemove, drv.MExExchange, drv.MExExchangeFn} {
			ops = append(ops, model.Op{K: model.OpInvalid, Inv: drv.InvStale, N: mth, E: e, Path: path, Cs: cs, Ord: tuple, Rm: rm, T: relc})
		}
	}
	return ops
}

// invalidProbes is the per-state invalid family (S7 of DESIGN appendix B).
func invalidProbes(allArities bool) func(x *drv.World) []model.Op {
	return func(x *drv.World) []model.Op {
		m := x.M
		if m.Locked() {
			return nil
		}
		var ops []model.Op
		stale := staleKinds(x)
		for _, e := range stale {
			ops = append(ops,
				model.Op{K: model.OpInvalid, Inv: drv.InvStale, N: drv.MRemoveEntity, E: e},
				model.Op{K: model.OpInvalid, Inv: drv.InvStale, N: drv.MCopyEntity, E: e},
				model.Op{K: model.OpInvalid, Inv: drv.InvStale, N: drv.MUnsafeIDs, E: e},
				model.Op{K: model.OpInvalid, Inv: drv.InvStale, N: drv.MUnsafeGet, E: e, Cs: ct.Of(ct.P)},
				model.Op{K: model.OpInvalid, Inv: drv.InvStale, N: drv.MUnsafeHas, E: e, Cs: ct.Of(ct.P)},
				model.Op{K: model.OpInvalid, Inv: drv.InvStale, N: drv.MUnsafeGetRel, E: e, Cs: ct.Of(ct.R1)},
			)
			// Event.Emit is deliberately not probed: without an observer for the event type it returns before
			// looking at the entity, and nothing documents it as a checked operation
		}
		if allArities {
			for _, t := range api.MapTuples {
				ops = append(ops, staleOps(stale, model.PathMapN, t)...)
			}
			for c := ct.Comp(0); c < ct.NumComps; c++ {
				ops = append(ops, staleOps(stale, model.PathMap, []ct.Comp{c})...)
			}
			for _, t := range api.ExchangeTuples {
				if len(t) <= 8 {
					ops = append(ops, staleExOps(stale, model.PathExchange, t, ct.Of(ct.T11)&^ct.Of(t...))...)
				}
			}
		} else {
			for _, t := range [][]ct.Comp{{ct.P}, {ct.P, ct.Q}, {ct.R1}, {ct.P, ct.R1}} {
				ops = append(ops, staleOps(stale, model.PathMapN, t)...)
				ops = append(ops, staleOps(stale, model.PathUnsafe, t)...)
				ops = append(ops, staleExOps(stale, model.PathExchange, t, ct.Of(ct.T9))...)
				ops = append(ops, staleExOps(stale, model.PathUnsafe, t, ct.Of(ct.T9))...)
			}
			ops = append(ops, staleOps(stale, model.PathMap, []ct.Comp{ct.P})...)
			ops = append(ops, staleOps(stale, model.PathMap, []ct.Comp{ct.R1})...)
		}
		// argument violations on alive entities
		al := m.Alive()
		var dead []int
		for i := m.EpochLo; i < len(m.Ents); i++ {
			if !m.Ents[i].Alive {
				dead = append(dead, i)
			}
		}
		paths := []model.Path{model.PathUnsafe, model.PathMapN, model.PathMap, model.PathExchange}
		for _, e := range pick2(al) {
			cs := m.Ents[e].Comps
			for _, c := range []ct.Comp{ct.P, ct.Q, ct.R1} {
				one := ct.Of(c)
				var t []model.RelT
				if ct.IsRel(c) {
					t = rel(c, model.ZeroTarget)
				}
				for _, path := range paths {
					if cs.Has(c) {
						ops = append(ops, model.Op{K: model.OpInvalid, Inv: drv.InvAddHas, E: e, Path: path, Cs: one, T: t})
					} else {
						ops = append(ops, model.Op{K: model.OpInvalid, Inv: drv.InvRemLacks, E: e, Path: path, Rm: one})
					}
				}
			}
			// partially present / partially absent pairs
			if cs.Has(ct.P) != cs.Has(ct.Q) {
				ops = append(ops, model.Op{K: model.OpInvalid, Inv: drv.InvAddHas, E: e, Path: model.PathMapN, Cs: ct.Of(ct.P, ct.Q)})
				ops = append(ops, model.Op{K: model.OpInvalid, Inv: drv.InvAddHas, E: e, Path: model.PathUnsafe, Cs: ct.Of(ct.P, ct.Q)})
				ops = append(ops, model.Op{K: model.OpInvalid, Inv: drv.InvRemLacks, E: e, Path: model.PathMapN, Rm: ct.Of(ct.P, ct.Q)})
				ops = append(ops, model.Op{K: model.OpInvalid, Inv: drv.InvRemLacks, E: e, Path: model.PathUnsafe, Rm: ct.Of(ct.P, ct.Q)})
			}
			for n := 0; n < 3; n++ {
				ops = append(ops, model.Op{K: model.OpInvalid, Inv: drv.InvEmpty, E: e, N: n})
			}
			// duplicate components in one list
			for _, c := range []ct.Comp{ct.P, ct.Q} {
				if cs.Has(c) && !cs.Has(ct.T9) {
					for n := 0; n < 4; n++ {
						ops = append(ops, model.Op{K: model.OpInvalid, Inv: drv.InvDupRemove, E: e, N: n, Rm: ct.Of(c)})
					}
				} else if !cs.Has(c) {
					ops = append(ops, model.Op{K: model.OpInvalid, Inv: drv.InvDupAdd, E: e, N: 0, Cs: ct.Of(c)})
				}
			}
			if !cs.Has(ct.R1) {
				for _, path := range []model.Path{model.PathUnsafe, model.PathMapN, model.PathMap} {
					ops = append(ops, model.Op{K: model.OpInvalid, Inv: drv.InvNoTarget, N: 1, E: e, Path: path, Cs: ct.Of(ct.R1)})
					for _, d := range pick2(dead) {
						ops = append(ops, model.Op{K: model.OpInvalid, Inv: drv.InvDeadTgt, N: 1, E: e, Path: path, Cs: ct.Of(ct.R1), T: rel(ct.R1, d)})
					}
				}
			} else {
				for _, path := range []model.Path{model.PathUnsafe, model.PathMapN, model.PathMap} {
					for _, d := range pick2(dead) {
						ops = append(ops, model.Op{K: model.OpInvalid, Inv: drv.InvDeadTgt, N: 2, E: e, Path: path, Cs: ct.Of(ct.R1), T: rel(ct.R1, d)})
					}
				}
			}
		}
		for _, path := range []model.Path{model.PathUnsafe, model.PathMapN, model.PathMap} {
			ops = append(ops, model.Op{K: model.OpInvalid, Inv: drv.InvNoTarget, N: 0, Path: path, Cs: ct.Of(ct.R1)})
			for _, d := range pick2(dead) {
				ops = append(ops, model.Op{K: model.OpInvalid, Inv: drv.InvDeadTgt, N: 0, Path: path, Cs: ct.Of(ct.R1), T: rel(ct.R1, d)})
			}
		}
		ops = append(ops, model.Op{K: model.OpInvalid, Inv: drv.InvDupAdd, N: 1, Cs: ct.Of(ct.P)})
		ops = append(ops, model.Op{K: model.OpInvalid, Inv: drv.InvNoTarget, N: 0, Path: model.PathMapN, Cs: ct.Of(ct.P, ct.R1)})
		ops = append(ops, model.Op{K: model.OpInvalid, Inv: drv.InvNoTarget, N: 0, Path: model.PathUnsafe, Cs: ct.Of(ct.P, ct.R1)})
		return ops
	}
}

func init() {
	Registry["C10"] = func(t Tier) *Check {
		d := 4
		if t == Thorough {
			d = 5
		}
		one := []api.RelMode{api.RelByIdx}
		u := []ct.Comp{ct.P, ct.Q, ct.R1, ct.T9}
		or := drv.Oracle{World: true, Typed: true, Pool: true, Lock: true, Filters: true}
		filters := relFilters()[:2]
		alpha := concat(
			plainAlphabet(plainOpts{a: ct.P, b: ct.Q, c: ct.NumComps, path: model.PathMapN, maxAlive: 4, copyOp: true}),
			func(m *model.Model) []model.Op {
				var ops []model.Op
				tg := targets(m, 1)
				if limitAlive(m, 4) {
					for _, t := range tg {
						ops = append(ops, model.Op{K: model.OpNew, Path: model.PathMapN, Cs: ct.Of(ct.P, ct.R1), T: rel(ct.R1, t)})
					}
				}
				return ops
			})
		nP := model.Op{K: model.OpNew, Path: model.PathMapN, Cs: ct.Of(ct.P)}
		pre := [][]model.Op{
			nil,
			// one removed-never-reused, one removed-and-reused handle, targets
			{nP, nP, nP, {K: model.OpRemoveEntity, E: 0}, {K: model.OpRemoveEntity, E: 1}, nP, {K: model.OpNew, Path: model.PathMapN, Cs: ct.Of(ct.P, ct.R1), T: rel(ct.R1, 2)}},
		}
		sc := &engine.Scenario{
			Name: "C10-invalid", Cfgs: cfgs([]int{1, 2}, []int{0}, one, u), Filters: filters, Slots: 1, Oracle: or,
			Preludes: pre, Alphabet: alpha, Probes: invalidProbes(false), Depth: d,
		}
		all := []ct.Comp{ct.P, ct.Q, ct.R1, ct.S, ct.Z, ct.L, ct.R2, ct.T7, ct.T8, ct.T9, ct.T10, ct.T11}
		scA := &engine.Scenario{
			Name: "C10-invalid/all-arities", Cfgs: cfgs([]int{2}, []int{0}, one, all), Filters: filters, Slots: 1, Oracle: drv.Oracle{World: true, Pool: true, Lock: true},
			Preludes: pre[1:], Alphabet: func(m *model.Model) []model.Op { return nil }, Probes: invalidProbes(true), Depth: 0,
		}
		return &Check{ID: "C10", Scenarios: []*engine.Scenario{sc, scA},
			Rule: "states = all histories of the plain + relation alphabet up to the depth bound from 2 preludes (one containing a removed-never-reused and a removed-and-reused handle); at every state the invalid family is issued one call after the other: every checked entity-taking method of World, Unsafe, Map, MapN and ExchangeN (tuples of arity 1-2; all 12/8 arities in a dedicated scenario) x {zero entity, removed handle, removed handle whose id is reused}, adding present / removing absent components (single and partially overlapping sets, 4 API paths), empty component lists, relation component without target, dead entity as target for new/add/set; each must panic, and after each the full observation (entities, components, values, relations, lock, Stats entity counts, Filter0 count) must equal the model, and the history continues; non-trivial = >=1 alive entity",
		}
	}
}
