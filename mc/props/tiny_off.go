//go:build !ark_tiny

package props

// MaxComps is the documented maximum number of component types of this build.
const MaxComps = 256

// BuildTiny tells whether the harness was built with the ark_tiny tag.
const BuildTiny = false
