package props

import (
	"fmt"
	"os"
	"strconv"
	"sync"
	"time"

	"verif/mc/api"
	"verif/mc/ct"
	"verif/mc/drv"
	"verif/mc/engine"
	"verif/mc/model"
)

// ---------------------------------------------------------------- C12: determinism
//
// (i)  map iteration order is an owned environment (maprange overlay): for every history and
//      every deviation from the default (ascending) order at every map range (bound 1 quick,
//      2 thorough) the trace must equal the default-order trace;
// (ii) the enumeration is run by several separate processes (different hash seeds): digest
//      streams must be identical;
// (iii) two worlds in one process fed the same history must produce identical traces.

func c12Alphabet(t *traceWorld) []model.Op {
	m := t.x.M
	rel := relAlphabet(relOpts{path: model.PathMapN, maxAlive: 5, batch: true, two: true, shrink: true, reset: true, nTargets: 2})
	ops := rel(m)
	ops = append(ops, validOnly(m, regOps(m, []int{0, 4}))...)
	return ops
}

func c12Preludes() [][]model.Op {
	nP := model.Op{K: model.OpNew, Path: model.PathMapN, Cs: ct.Of(ct.P)}
	two := func(a, b int) model.Op {
		return model.Op{K: model.OpNew, Path: model.PathMapN, Cs: ct.Of(ct.R1, ct.R2), T: []model.RelT{{C: ct.R1, T: a}, {C: ct.R2, T: b}}}
	}
	child1 := func(t int) model.Op {
		return model.Op{K: model.OpNew, Path: model.PathMapN, Cs: ct.Of(ct.P, ct.R1), T: rel(ct.R1, t)}
	}
	// 34 targets with one child table each: more tables in one relation archetype than any small-size shortcut
	// (pooled scratch slices, per-archetype fast paths) could be tuned for; filters are registered afterwards
	var many []model.Op
	for i := 0; i < 34; i++ {
		many = append(many, nP)
	}
	for i := 0; i < 34; i++ {
		many = append(many, child1(i))
	}
	return [][]model.Op{
		{nP, nP, nP, two(0, 1), two(1, 2), two(0, 2), two(2, 0)},
		{nP, nP, two(0, 1), two(1, 0), {K: model.OpNew, Path: model.PathMapN, Cs: ct.Of(ct.P, ct.R1), T: rel(ct.R1, 0)}, {K: model.OpRegister, F: 0}},
		// both targets of a two-relation table removed one after the other / table freed by Shrink while both live
		{nP, nP, nP, two(0, 1), two(1, 2), two(0, 2), two(2, 0), {K: model.OpRemoveEntity, E: 0}, {K: model.OpRemoveEntity, E: 1}},
		{nP, nP, nP, two(0, 1), two(1, 2), {K: model.OpRemoveEntity, E: 3}, {K: model.OpShrink}, {K: model.OpRemoveEntity, E: 0}},
		// relation tables grown to different capacities (capacity 1 world): recycling order after Reset shows in Stats
		{nP, nP, nP, child1(0), child1(0), child1(0), child1(1), child1(2), child1(2)},
		many,
	}
}

type c12Task struct {
	cfg     drv.Config
	prelude []model.Op
	start   []model.Op
	less    int // depth reduction for this prelude
}

func c12Tasks() []c12Task {
	var tasks []c12Task
	for _, cfg := range cfgs([]int{1}, []int{0}, []api.RelMode{api.RelByIdx}, relUniverse) {
		for pi, p := range c12Preludes() {
			mapReset(nil)
			_, s1, _ := runTrace(cfg, p, nil, c12Alphabet, false)
			less := 0
			if pi == 2 || pi == 3 || pi == 5 {
				less = 1 // long preludes that already contain the critical removals
			}
			for _, op1 := range s1 {
				tasks = append(tasks, c12Task{cfg, p, []model.Op{op1}, less})
			}
		}
	}
	return tasks
}

// c12RunTask explores the subtree; returns combined digest, histories, map-order executions, violations.
func c12RunTask(t c12Task, depth, bound int, viol *[]drv.Violation) (uint64, int, int, int) {
	var h hashWriter
	n, extra, points := 0, 0, 0
	var dfs func(hist []model.Op)
	dfs = func(hist []model.Op) {
		if pastDeadline() {
			return
		}
		mapReset(nil)
		d0, succ, _ := runTrace(t.cfg, t.prelude, hist, c12Alphabet, false)
		perms := mapLog()
		sites := mapSites()
		points += len(perms)
		n++
		h.add(strconv.FormatUint(d0, 16))
		// (i) deviations from the default order
		try := func(ch []int) {
			mapReset(ch)
			d, _, _ := runTrace(t.cfg, t.prelude, hist, c12Alphabet, false)
			extra++
			if d != d0 && len(*viol) < 20 {
				*viol = append(*viol, drv.Violation{Kind: "map-order", Step: len(hist),
					Msg: fmt.Sprintf("trace depends on map iteration order: choices %v at map ranges %v give a different trace than ascending order; prelude=%v history=%v", ch, sites, t.prelude, hist)})
			}
		}
		for i := range perms {
			for p := 1; p < perms[i]; p++ {
				ch := make([]int, i+1)
				ch[i] = p
				try(ch)
				if bound >= 2 && len(hist) <= 3 {
					// pairs of deviations for histories up to depth 3 (single deviations at the full depth)
					for j := i + 1; j < len(perms); j++ {
						for q := 1; q < perms[j]; q++ {
							ch2 := make([]int, j+1)
							ch2[i], ch2[j] = p, q
							try(ch2)
						}
					}
				}
			}
		}
		// (iii) a second world fed the same history in the same process
		mapReset(nil)
		d2, _, _ := runTrace(t.cfg, t.prelude, hist, c12Alphabet, false)
		if d2 != d0 && len(*viol) < 20 {
			*viol = append(*viol, drv.Violation{Kind: "nondeterministic", Step: len(hist),
				Msg: fmt.Sprintf("two worlds fed the same history disagree (same process): prelude=%v history=%v", t.prelude, hist)})
		}
		if len(hist) >= depth-t.less {
			return
		}
		for _, op := range succ {
			dfs(append(hist, op))
		}
	}
	dfs(append([]model.Op{}, t.start...))
	return h.sum, n, extra, points
}

func init() {
	SubModes["C12"] = func(args []string) *SubResult {
		depth := 3
		bound := 1
		if len(args) > 0 && args[0] == "thorough" {
			depth, bound = 4, 2
		}
		shard, nshard := 0, 1
		if len(args) >= 3 {
			shard, _ = strconv.Atoi(args[1])
			nshard, _ = strconv.Atoi(args[2])
		}
		traceFilters = relFilters()
		traceStats = true
		tasks := c12Tasks()
		r := &SubResult{}
		for k := range tasks {
			if k%nshard != shard {
				continue
			}
			var v []drv.Violation
			d, n, extra, pts := c12RunTask(tasks[k], depth, bound, &v)
			r.Cases += n
			r.Steps += extra
			r.Points += pts
			r.Digests = append(r.Digests, fmt.Sprintf("%d:%x", k, d))
			r.Violations = append(r.Violations, v...)
		}
		r.Truncated = pastDeadline()
		return r
	}

	Registry["C12"] = func(t Tier) *Check {
		chk := &Check{ID: "C12",
			Rule:   "histories = all histories of the relation alphabet with two relation components, batch removal, Shrink, Reset and filter registration up to depth 3 (quick) / 4 (thorough) after 6 preludes (several two-relation tables, targets removed / tables freed by Shrink beforehand, tables of different capacities, and 34 targets with one child table each, depth reduced by one); trace = issued handles, every entity's state, iteration order of three queries, Stats() after every operation. (i) binary built with the maprange overlay (every `range` over a map in package ecs, found by type-checking the current sources, iterates in an explorer-chosen order): for every history, every single deviation (quick, and thorough at depth 4) / pair of deviations (thorough, up to depth 3) from ascending key order at every map range must leave the trace unchanged; (ii) the enumeration is sharded over 16 processes twice (different hash seeds), digest streams must agree between the two rounds and with an un-instrumented build; (iii) a second world fed the same history in the same process must produce the same trace; states = histories, non-trivial = histories in which at least one map range had >= 2 keys",
			Assume: []string{"the only sources of nondeterminism in package ecs are map iteration order and hash seeds (no goroutines, clocks or address-dependent logic); time-limited Shrink is excluded by contract"},
		}
		chk.Special = func(tier Tier, rep *engine.Report) error {
			ts := "quick"
			if tier == Thorough {
				ts = "thorough"
			}
			ov, rw, err := BuildOverlay("maps", "maprange")
			if err != nil {
				return err
			}
			extraOverlay["verif_maps"] = ov
			rep.PerConfig = append(rep.PerConfig, fmt.Sprintf("C12 maprange rewrite: %v", rw))
			os.Setenv("GOMAXPROCS", "1")
			defer os.Unsetenv("GOMAXPROCS")
			const shards = 16
			type round struct {
				tag string
				res [shards]*SubResult
			}
			rounds := []*round{{tag: "verif_maps"}, {tag: "verif_maps"}, {tag: ""}}
			end := SubDeadlineTime()
			for ri, rd := range rounds {
				if _, err := BuildTagged(rd.tag); err != nil {
					return err
				}
				// the rounds share the wall-clock budget: each gets an equal part of what is left
				if !end.IsZero() {
					left := time.Until(end)
					if left < 0 {
						left = 0
					}
					SetSubDeadline(time.Now().Add(left / time.Duration(len(rounds)-ri)))
				}
				var wg sync.WaitGroup
				errs := make([]error, shards)
				for s := 0; s < shards; s++ {
					wg.Add(1)
					go func(s int) {
						defer wg.Done()
						rd.res[s], errs[s] = RunSubPrebuilt("C12", rd.tag, ts, strconv.Itoa(s), strconv.Itoa(shards))
					}(s)
				}
				wg.Wait()
				for _, e := range errs {
					if e != nil {
						return e
					}
				}
			}
			for _, rd := range rounds {
				noteTruncated(rep, "C12", rd.res[:]...)
			}
			points := 0
			for s := 0; s < shards; s++ {
				a := rounds[0].res[s]
				rep.Histories += int64(a.Cases + a.Steps)
				rep.States += int64(a.Cases)
				rep.Transitions += int64((a.Cases + a.Steps) * 6)
				points += a.Points
				for _, v := range a.Violations {
					rep.Found = append(rep.Found, engine.Found{Scenario: "C12-maporder", V: v, OpKind: v.Kind})
				}
				for ri := 1; ri < len(rounds); ri++ {
					b := rounds[ri].res[s]
					if a.Truncated || b.Truncated {
						// a process that was stopped by the deadline has digested only a prefix: not comparable
						continue
					}
					if fmt.Sprint(a.Digests) != fmt.Sprint(b.Digests) {
						rep.Found = append(rep.Found, engine.Found{Scenario: "C12-processes", OpKind: "process-diff",
							V: drv.Violation{Kind: "process-diff", Msg: fmt.Sprintf("shard %d: digest streams differ between two processes running the same enumeration (round 0 vs round %d, build tag %q):\n %v\n %v", s, ri, rounds[ri].tag, a.Digests, b.Digests)}})
					}
				}
			}
			rep.NonTrivial += int64(points)
			rep.PerConfig = append(rep.PerConfig, fmt.Sprintf("C12: map-range choice points with >=2 keys encountered: %d; 3 rounds x %d processes", points, shards))
			rep.Samples = append(rep.Samples, "history: prelude [New{P} x3, New{R1->#0,R2->#1}, New{R1->#1,R2->#2}, New{R1->#0,R2->#2}, New{R1->#2,R2->#0}] + [RemoveEntity(#0), Shrink, New{R1->#1,R2->#2}] re-executed with every permutation choice at archetype.go FreeTable map ranges")
			return nil
		}
		addThreshold(chk, "nested-twins", nestedTwinSweep, "nested twin worlds: for every ordered pair of 7 callback-bearing operations two worlds get the same sequence, the second world's operation running inside the first world's callback; both must equal a third world that ran the sequence alone (entities, values, targets, query order, issued handles, callback counts, entity statistics)")
		return chk
	}
}
