package props

import (
	"verif/mc/api"
	"verif/mc/ct"
	"verif/mc/drv"
	"verif/mc/engine"
	"verif/mc/model"
)

func lockFilters() []model.FilterSpec {
	return []model.FilterSpec{
		{Params: []ct.Comp{ct.P}},                    // f0 typed, never registered
		{Params: []ct.Comp{ct.P}, With: ct.Of(ct.Q)}, // f1 typed, registered by the prelude
		{Params: []ct.Comp{ct.P}, Unsafe: true},      // f2 unsafe
		{},                                           // f3 Filter0
		{Params: []ct.Comp{ct.R1}},                   // f4 for batches
	}
}

// structuralProbes: one representative of every structure-changing operation kind and API path.
// queryMisuseProbes: query creation that must be rejected without taking (or leaking) a lock.
func queryMisuseProbes(x *drv.World) []model.Op {
	ops := []model.Op{
		{K: model.OpInvalid, Inv: drv.InvQueryRelIdx, F: 2},
		{K: model.OpInvalid, Inv: drv.InvQueryNotInFilter, F: 0},
	}
	for _, d := range x.DeadSamples() {
		ops = append(ops, model.Op{K: model.OpInvalid, Inv: drv.InvQueryDeadTarget, F: 4, QT: rel(ct.R1, d)})
	}
	return ops
}

func structuralProbes(x *drv.World) []model.Op {
	m := x.M
	if !m.Locked() {
		return queryMisuseProbes(x)
	}
	al := m.Alive()
	var ops []model.Op
	ops = append(ops,
		model.Op{K: model.OpNewPlain},
		model.Op{K: model.OpNewEntities, N: 2},
		model.Op{K: model.OpNewEntities, N: 1, Fn: true},
		model.Op{K: model.OpNew, Path: model.PathUnsafe, Cs: ct.Of(ct.P)},
		model.Op{K: model.OpNew, Path: model.PathMapN, Cs: ct.Of(ct.P, ct.Q)},
		model.Op{K: model.OpNew, Path: model.PathMap, Cs: ct.Of(ct.P), Init: model.InitFn},
		model.Op{K: model.OpNewBatch, Path: model.PathMapN, Cs: ct.Of(ct.P), N: 2},
		model.Op{K: model.OpNewBatch, Path: model.PathMap, Cs: ct.Of(ct.Q), N: 1, Init: model.InitFn, Fn: true},
		model.Op{K: model.OpReset},
		model.Op{K: model.OpRegisterComp},
		model.Op{K: model.OpLoadEntities},
		model.Op{K: model.OpAddBatch, Path: model.PathMapN, F: 3, Cs: ct.Of(ct.T9)},
		model.Op{K: model.OpRemoveBatch, Path: model.PathMapN, F: 0, Rm: ct.Of(ct.P)},
		model.Op{K: model.OpExchangeBatch, F: 0, Cs: ct.Of(ct.T9), Rm: ct.Of(ct.P)},
		model.Op{K: model.OpRemoveEntities, F: 3},
		model.Op{K: model.OpRemoveEntities, F: 0, Fn: true},
	)
	if len(al) > 0 {
		e := al[0]
		ops = append(ops, model.Op{K: model.OpCopy, E: e}, model.Op{K: model.OpRemoveEntity, E: e})
		for _, path := range []model.Path{model.PathUnsafe, model.PathMapN, model.PathMap, model.PathExchange} {
			ops = append(ops, model.Op{K: model.OpAdd, Path: path, E: e, Cs: ct.Of(ct.T9)})
		}
		if m.Ents[e].Comps.Has(ct.P) {
			for _, path := range []model.Path{model.PathUnsafe, model.PathMapN, model.PathMap, model.PathExchange} {
				ops = append(ops, model.Op{K: model.OpRemove, Path: path, E: e, Rm: ct.Of(ct.P)})
			}
			ops = append(ops,
				model.Op{K: model.OpExchange, Path: model.PathUnsafe, E: e, Cs: ct.Of(ct.T9), Rm: ct.Of(ct.P)},
				model.Op{K: model.OpExchange, Path: model.PathExchange, E: e, Cs: ct.Of(ct.T9), Rm: ct.Of(ct.P)},
			)
		}
		for _, r := range with(m, ct.Of(ct.R1)) {
			for _, path := range []model.Path{model.PathUnsafe, model.PathMapN, model.PathMap} {
				t := model.ZeroTarget
				if m.Ents[r].Tgt[ct.R1] == model.ZeroTarget {
					t = e
				}
				if t != r {
					ops = append(ops, model.Op{K: model.OpSetRel, Path: path, E: r, T: rel(ct.R1, t)})
				}
			}
			ops = append(ops, model.Op{K: model.OpSetRelBatch, Path: model.PathMapN, F: 4, T: rel(ct.R1, e)})
			break
		}
	}
	return append(validOnly(m, ops), queryMisuseProbes(x)...)
}

func lockAlphabet(slots int) func(m *model.Model) []model.Op {
	return func(m *model.Model) []model.Op {
		var ops []model.Op
		free := -1
		for q := 0; q < slots && q < len(m.Queries); q++ {
			if !m.Queries[q].Open {
				free = q
				break
			}
		}
		if free >= 0 {
			for _, f := range []int{0, 1, 2} {
				ops = append(ops, model.Op{K: model.OpOpen, F: f, Q: free})
			}
		}
		for q := 0; q < slots && q < len(m.Queries); q++ {
			if slots > 8 && q != 0 && q != 33 && q < 59 {
				continue // with many open queries act on the oldest, a middle one and the newest only
			}
			s := &m.Queries[q]
			if s.Open {
				ops = append(ops, model.Op{K: model.OpNext, Q: q}, model.Op{K: model.OpClose, Q: q})
			} else if s.Visited > 0 || len(s.Expected) > 0 {
				ops = append(ops, model.Op{K: model.OpClose, Q: q}) // closing a finished/closed query again
			}
		}
		al := m.Alive()
		if len(al) > 0 {
			// non-structural operations work on a locked world
			e := al[len(al)-1]
			if m.Ents[e].Comps.Has(ct.P) {
				ops = append(ops,
					model.Op{K: model.OpSet, Path: model.PathMapN, E: e, Cs: ct.Of(ct.P)},
					model.Op{K: model.OpWrite, Path: model.PathMap, E: e, Cs: ct.Of(ct.P)},
					model.Op{K: model.OpEmit, E: e, Cs: ct.Of(ct.P)},
				)
			}
		}
		ops = append(ops, model.Op{K: model.OpTouch, F: 3})
		// a query opened inside a NewEntities callback that stays open after the call; closed at any later point
		ops = append(ops, model.Op{K: model.OpLeakClose})
		if !m.Locked() && slots <= 8 {
			ops = append(ops, model.Op{K: model.OpNewEntities, N: 1, Fn: true, Leak: true})
		}
		if !m.Locked() {
			if len(al) < 4 {
				ops = append(ops, model.Op{K: model.OpNew, Path: model.PathMapN, Cs: ct.Of(ct.P, ct.Q)})
				t := model.ZeroTarget
				if len(al) > 0 {
					t = al[0]
				}
				ops = append(ops, model.Op{K: model.OpNew, Path: model.PathMapN, Cs: ct.Of(ct.P, ct.R1), T: rel(ct.R1, t)})
			}
			ops = append(ops, model.Op{K: model.OpReset})
			if len(al) > 0 {
				ops = append(ops, model.Op{K: model.OpRemoveEntity, E: al[0]})
			}
			ops = append(ops, model.Op{K: model.OpRemoveEntities, F: 0, Fn: true})
			// batch operations whose filter may match nothing must release their internal lock, too
			ops = append(ops,
				model.Op{K: model.OpRemoveEntities, F: 4},
				model.Op{K: model.OpSetRelBatch, Path: model.PathMapN, F: 4, T: rel(ct.R1, model.ZeroTarget)},
				model.Op{K: model.OpSetRelBatch, Path: model.PathMap, F: 4, T: rel(ct.R1, model.ZeroTarget), Fn: true},
				model.Op{K: model.OpRemoveBatch, Path: model.PathMapN, F: 4, Rm: ct.Of(ct.R1)},
				model.Op{K: model.OpAddBatch, Path: model.PathMapN, F: 4, Cs: ct.Of(ct.T9)},
				model.Op{K: model.OpNewBatch, Path: model.PathMap, Cs: ct.Of(ct.R1), N: 2, T: rel(ct.R1, model.ZeroTarget), Init: model.InitNil},
			)
		}
		return validOnly(m, ops)
	}
}

func init() {
	Registry["C07"] = func(t Tier) *Check {
		d := 5
		if t == Thorough {
			d = 6
		}
		u := []ct.Comp{ct.P, ct.Q, ct.R1, ct.T9}
		obs := []model.ObsSpec{{Event: model.EvRemoveEntity}, {Event: model.EvRemoveComponents}, {Event: model.EvSetComponents}, {Event: model.EvCustom}, {Event: model.EvRemoveRelations}}
		var pre0 []model.Op
		for i := range obs {
			pre0 = append(pre0, model.Op{K: model.OpObserve, O: i})
		}
		pq := model.Op{K: model.OpNew, Path: model.PathMapN, Cs: ct.Of(ct.P, ct.Q)}
		pre0 = append(pre0, pq, pq, model.Op{K: model.OpNew, Path: model.PathMapN, Cs: ct.Of(ct.P, ct.R1), T: rel(ct.R1, 0)}, model.Op{K: model.OpRegister, F: 1})
		or := drv.Oracle{World: true, Lock: true, Stats: true, Events: true, ProbeCb: true, Filters: true}
		sc := &engine.Scenario{
			Name: "C07-lock/4-slots", Cfgs: append(cfgs([]int{2}, []int{0}, []api.RelMode{api.RelByIdx}, u), cfgs([]int{1}, []int{0}, []api.RelMode{api.RelByIdx}, []ct.Comp{ct.P, ct.Q, ct.T9, ct.R1})...),
			Filters: lockFilters(), Obs: obs, Slots: 4, Oracle: or,
			Preludes: [][]model.Op{pre0}, Alphabet: lockAlphabet(4), Probes: structuralProbes, Depth: d,
			NonTrivial: func(x *drv.World) bool { return x.M.Locked() },
		}
		// 61 queries already open: the next ones get bits 61..63, then recycle
		pre61 := append([]model.Op{}, pre0...)
		for q := 0; q < 61; q++ {
			pre61 = append(pre61, model.Op{K: model.OpOpen, F: q % 3, Q: q})
		}
		pre61b := append([]model.Op{}, pre61...)
		pre61b = append(pre61b, model.Op{K: model.OpClose, Q: 0}, model.Op{K: model.OpClose, Q: 33}, model.Op{K: model.OpClose, Q: 60})
		sc64 := &engine.Scenario{
			Name: "C07-lock/64-slots", Cfgs: cfgs([]int{2}, []int{0}, []api.RelMode{api.RelByIdx}, u),
			Filters: lockFilters(), Obs: obs, Slots: 63, Oracle: or,
			Preludes: [][]model.Op{pre61, pre61b}, Alphabet: lockAlphabet(63), Probes: structuralProbes, Depth: d - 1,
			NonTrivial: func(x *drv.World) bool { return x.M.Locked() },
		}
		return &Check{ID: "C07", Scenarios: []*engine.Scenario{sc, sc64},
			Rule: "all histories over Open (typed uncached, typed cached, unsafe) / Next / Close (also of finished and closed queries) in 4 slots, i.e. all nestings, overlaps and lock-bit recycle orders for 4 bits, and from preludes with 61 (and 58 with holes) queries already open so that bits 61-63 and the 64-query boundary are reached (the 64th query is opened by the oracle's own queries); non-structural Set / pointer write / Emit / new queries must work while locked; a query opened inside a NewEntities callback may stay open after the call and is closed at any later point (its lock bit must stay reserved); at every node with a locked world one representative of every structural operation kind and API path (about 40 calls incl. Reset, Shrink, registering a component type, LoadEntities, all batch forms) is attempted: each must panic and leave the observable state unchanged (full comparison after each); removal-observer and batch callbacks attempt 8 structural calls from inside; IsLocked and Stats().Locked equal the model in every state; non-trivial = world locked",
		}
	}
}
