package props

import (
	"fmt"

	"verif/mc/api"
	"verif/mc/ct"
	"verif/mc/drv"
	"verif/mc/engine"
	"verif/mc/model"
)

var allComps = []ct.Comp{ct.P, ct.Q, ct.R1, ct.S, ct.Z, ct.L, ct.R2, ct.T7, ct.T8, ct.T9, ct.T10, ct.T11}

func instantiated(list [][]ct.Comp, t []ct.Comp) bool {
	k := api.Key(t)
	for _, x := range list {
		if api.Key(x) == k {
			return true
		}
	}
	return false
}

// arityScenario builds the per-tuple scenario of C14.
func arityScenario(tuple []ct.Comp, depth int) *engine.Scenario {
	cs := ct.Of(tuple...)
	n := len(tuple)
	// X: a non-relation component outside the tuple (none for arity 12)
	x := ct.Comp(ct.NumComps)
	for _, c := range []ct.Comp{ct.T9, ct.P, ct.Q, ct.L, ct.T10} {
		if !cs.Has(c) {
			x = c
			break
		}
	}
	hasX := x < ct.NumComps
	// Y: a second non-relation component outside the tuple
	y := ct.Comp(ct.NumComps)
	for _, c := range []ct.Comp{ct.T10, ct.T11, ct.T8, ct.Q} {
		if !cs.Has(c) && c != x {
			y = c
			break
		}
	}
	hasY := hasX && y < ct.NumComps
	canEx := n <= 8 && instantiated(api.ExchangeTuples, tuple)
	canFilter := n <= 8 && instantiated(api.FilterTuples, tuple)
	canObs := n <= 4 && instantiated(api.ObserverTuples, tuple)
	relc := cs.Rels().List()
	filters := []model.FilterSpec{
		{With: 0, Without: ct.Of(tuple[0])}, // f0: everything lacking the first tuple component
	}
	if canFilter {
		filters = append(filters, model.FilterSpec{Params: tuple}) // f1
	} else {
		filters = append(filters, model.FilterSpec{With: cs})
	}
	if hasX {
		filters = append(filters, model.FilterSpec{Params: []ct.Comp{x}, Without: ct.Of(tuple[0])}) // f2
	}
	family := []model.FilterSpec{{}, {Params: tuple, Unsafe: true}}
	if canFilter {
		family = append(family, model.FilterSpec{Params: tuple}, model.FilterSpec{Params: tuple, Exclusive: true})
		if hasX {
			family = append(family, model.FilterSpec{Params: tuple, Without: ct.Of(x)}, model.FilterSpec{Params: tuple, With: ct.Of(x)})
			// two excluded components (given in two separate Without calls)
			for _, y := range []ct.Comp{ct.T10, ct.T11, ct.T8, ct.Q} {
				if !cs.Has(y) && y != x {
					family = append(family, model.FilterSpec{Params: tuple, Without: ct.Of(x, y)})
					break
				}
			}
		}
		for _, rc := range relc {
			family = append(family, model.FilterSpec{Params: tuple, Rels: rel(rc, 0)}, model.FilterSpec{Params: tuple, Rels: rel(rc, model.ZeroTarget)})
		}
	}
	var obs []model.ObsSpec
	var pre []model.Op
	for _, ev := range []int{model.EvCreateEntity, model.EvAddComponents, model.EvRemoveComponents, model.EvSetComponents, model.EvRemoveEntity} {
		if canObs {
			obs = append(obs, model.ObsSpec{Event: ev, Params: tuple})
		}
		// the generic observer with For(...) must see exactly the events the ID-based API would emit, at every arity
		obs = append(obs, model.ObsSpec{Event: ev, For: cs})
	}
	if len(relc) > 0 {
		obs = append(obs, model.ObsSpec{Event: model.EvAddRelations}, model.ObsSpec{Event: model.EvRemoveRelations})
		// filtered relation observers: the typed variants must pass the same old/new masks as the ID-based API
		obs = append(obs, model.ObsSpec{Event: model.EvAddRelations, For: ct.Of(relc[0])}, model.ObsSpec{Event: model.EvRemoveRelations, For: ct.Of(relc[len(relc)-1])})
		for _, c := range tuple {
			if !cs.Rels().Has(c) {
				obs = append(obs, model.ObsSpec{Event: model.EvAddRelations, With: ct.Of(c)}, model.ObsSpec{Event: model.EvRemoveRelations, With: ct.Of(c)})
				break
			}
		}
		if hasX {
			obs = append(obs, model.ObsSpec{Event: model.EvAddRelations, Without: ct.Of(x)})
		}
	}
	for i := range obs {
		pre = append(pre, model.Op{K: model.OpObserve, O: i})
	}
	// entity #0: a plain target
	pre = append(pre, model.Op{K: model.OpNewPlain})
	relsTo := func(t int) []model.RelT {
		var out []model.RelT
		for _, c := range relc {
			out = append(out, model.RelT{C: c, T: t})
		}
		return out
	}
	relsOf := func(set ct.Set, t int) []model.RelT {
		var out []model.RelT
		for _, c := range relc {
			if set.Has(c) {
				out = append(out, model.RelT{C: c, T: t})
			}
		}
		return out
	}
	// typed observers of arity >= 2: transitions that affect a strict subset of the observed components
	// (everything but the last one) must not fire them
	partial := canObs && n >= 2
	last := tuple[n-1]
	sub := cs &^ ct.Of(last)
	alpha := func(m *model.Model) []model.Op {
		var ops []model.Op
		al := m.Alive()
		tgt := model.ZeroTarget
		if m.IsAlive(0) {
			tgt = 0
		}
		if len(al) < 4 {
			for _, in := range []model.Init{model.InitValue, model.InitFn, model.InitNil} {
				ops = append(ops, model.Op{K: model.OpNew, Path: model.PathMapN, Cs: cs, Ord: tuple, Init: in, T: relsTo(tgt)})
			}
			ops = append(ops, model.Op{K: model.OpNewBatch, Path: model.PathMapN, Cs: cs, Ord: tuple, N: 2, T: relsTo(tgt)})
			ops = append(ops, model.Op{K: model.OpNewBatch, Path: model.PathMapN, Cs: cs, Ord: tuple, N: 2, Init: model.InitFn, Fn: true, T: relsTo(model.ZeroTarget)})
			ops = append(ops, model.Op{K: model.OpNewPlain})
			if hasX {
				ops = append(ops, model.Op{K: model.OpNew, Path: model.PathUnsafe, Cs: ct.Of(x)})
				if y := ct.T10; !cs.Has(y) && y != x {
					ops = append(ops, model.Op{K: model.OpAdd, Path: model.PathUnsafe, E: 0, Cs: ct.Of(y)})
				}
				if hasY && canEx {
					ops = append(ops, model.Op{K: model.OpNew, Path: model.PathUnsafe, Cs: ct.Of(x, y)})
				}
			}
			if partial {
				ops = append(ops, model.Op{K: model.OpNew, Path: model.PathUnsafe, Cs: ct.Of(last), T: relsOf(ct.Of(last), tgt)})
			}
		}
		k := 0
		for _, e := range pick2(al) {
			c := m.Ents[e].Comps
			k++
			if c&cs == 0 {
				in := []model.Init{model.InitValue, model.InitFn, model.InitNil}[k%3]
				ops = append(ops, model.Op{K: model.OpAdd, Path: model.PathMapN, E: e, Cs: cs, Ord: tuple, Init: in, T: relsTo(tgt)})
				if canEx {
					ops = append(ops, model.Op{K: model.OpAdd, Path: model.PathExchange, E: e, Cs: cs, Ord: tuple, Init: model.InitFn, T: relsTo(model.ZeroTarget)})
					if len(relc) > 0 && tgt == 0 {
						// the same (cached) ExchangeN instance is used with changing targets
						ops = append(ops, model.Op{K: model.OpAdd, Path: model.PathExchange, E: e, Cs: cs, Ord: tuple, Init: model.InitFn, T: relsTo(tgt)})
					}
					if hasX && c.Has(x) {
						if hasY && c.Has(y) {
							// two removed components (given in two chained Removes calls)
							ops = append(ops, model.Op{K: model.OpExchange, Path: model.PathExchange, E: e, Cs: cs, Ord: tuple, Rm: ct.Of(x, y), Init: []model.Init{model.InitValue, model.InitFn}[k%2], T: relsTo(tgt)})
						} else {
							ops = append(ops, model.Op{K: model.OpExchange, Path: model.PathExchange, E: e, Cs: cs, Ord: tuple, Rm: ct.Of(x), Init: []model.Init{model.InitValue, model.InitFn}[k%2], T: relsTo(tgt)})
						}
					}
				}
			}
			if partial && c&cs == ct.Of(last) {
				ops = append(ops, model.Op{K: model.OpAdd, Path: model.PathUnsafe, E: e, Cs: sub, T: relsOf(sub, tgt)})
			}
			if c&cs == cs {
				ops = append(ops,
					model.Op{K: model.OpSet, Path: model.PathMapN, E: e, Cs: cs, Ord: tuple},
					model.Op{K: model.OpWrite, Path: model.PathMapN, E: e, Cs: cs, Ord: tuple},
					model.Op{K: model.OpRemove, Path: model.PathMapN, E: e, Rm: cs, Ord: tuple},
				)
				if partial {
					ops = append(ops, model.Op{K: model.OpRemove, Path: model.PathUnsafe, E: e, Rm: sub})
				}
				if len(relc) > 0 && e != 0 {
					nt := model.ZeroTarget
					if m.Ents[e].Tgt[relc[0]] == model.ZeroTarget && tgt == 0 {
						nt = 0
					}
					ops = append(ops, model.Op{K: model.OpSetRel, Path: model.PathMapN, E: e, Ord: tuple, T: rel(relc[len(relc)-1], nt)})
					ops = append(ops, model.Op{K: model.OpSetRel, Path: model.PathMapN, E: e, Ord: tuple, T: relsTo(nt)})
				}
			}
			ops = append(ops, model.Op{K: model.OpRemoveEntity, E: e})
		}
		// batch forms
		ops = append(ops,
			model.Op{K: model.OpAddBatch, Path: model.PathMapN, F: 0, Cs: cs, Ord: tuple, Init: model.InitFn, Fn: true, T: relsTo(tgt)},
			model.Op{K: model.OpAddBatch, Path: model.PathMapN, F: 0, Cs: cs, Ord: tuple, T: relsTo(model.ZeroTarget)},
			model.Op{K: model.OpRemoveBatch, Path: model.PathMapN, F: 1, Rm: cs, Ord: tuple, Fn: true},
			model.Op{K: model.OpRemoveEntities, F: 1, Fn: true},
		)
		if canEx && hasX {
			ops = append(ops,
				model.Op{K: model.OpExchangeBatch, F: 2, Cs: cs, Ord: tuple, Rm: ct.Of(x), Init: model.InitFn, Fn: true, T: relsTo(tgt)},
				model.Op{K: model.OpAddBatch, Path: model.PathExchange, F: 0, Cs: cs, Ord: tuple, Init: model.InitNil, T: relsTo(tgt)},
				model.Op{K: model.OpRemoveBatch, Path: model.PathExchange, F: 1, Rm: cs},
			)
		}
		if len(relc) > 0 {
			ops = append(ops, model.Op{K: model.OpSetRelBatch, Path: model.PathMapN, F: 1, Ord: tuple, T: relsTo(model.ZeroTarget), Fn: true})
			if tgt == 0 {
				ops = append(ops, model.Op{K: model.OpSetRelBatch, Path: model.PathMapN, F: 1, Ord: tuple, T: rel(relc[0], 0)})
			}
		}
		if canFilter {
			ops = append(ops, regOps(m, []int{1})...)
			if len(relc) > 0 {
				// several queries of the same filter with different per-query targets open at once
				ops = append(ops, queryOps(m, []int{1}, func(int) [][]model.RelT {
					out := [][]model.RelT{rel(relc[0], model.ZeroTarget)}
					if tgt == 0 {
						out = append(out, rel(relc[0], 0))
					}
					return out
				})...)
			}
		}
		return validOnly(m, ops)
	}
	preludes := [][]model.Op{pre}
	if (canFilter || canEx) && len(relc) > 0 {
		// children of #0 and of the zero entity, and one Batch(rel...) call on the filter beforehand
		p2 := append([]model.Op{}, pre...)
		if canEx {
			// the child of #0 is made through the (cached, later re-used) ExchangeN instance
			p2 = append(p2, model.Op{K: model.OpNewPlain},
				model.Op{K: model.OpAdd, Path: model.PathExchange, E: 1, Cs: cs, Ord: tuple, Init: model.InitFn, T: relsTo(0)})
		} else {
			p2 = append(p2, model.Op{K: model.OpNew, Path: model.PathMapN, Cs: cs, Ord: tuple, T: relsTo(0)})
		}
		p2 = append(p2, model.Op{K: model.OpNew, Path: model.PathMapN, Cs: cs, Ord: tuple, T: relsTo(model.ZeroTarget)})
		if canFilter {
			p2 = append(p2, model.Op{K: model.OpSetRelBatch, Path: model.PathMapN, F: 1, Ord: tuple, QT: rel(relc[0], 0), T: rel(relc[0], 0)})
		}
		preludes = append(preludes, p2)
	}
	return &engine.Scenario{
		Name:     fmt.Sprintf("C14-arity%d%v", n, tuple),
		Cfgs:     []drv.Config{{Cap: 1, Universe: allComps}},
		Filters:  filters,
		Obs:      obs,
		Slots:    2,
		Oracle:   drv.Oracle{World: true, Typed: true, Family: family, Filters: true, Lock: true, Events: true, InCb: canObs, InCbPtr: true, Tuple: tuple},
		Preludes: preludes,
		Alphabet: alpha,
		Depth:    depth,
	}
}

func init() {
	Registry["C14"] = func(t Tier) *Check {
		d := 3
		if t == Thorough {
			d = 4
		}
		var scs []*engine.Scenario
		seen := map[string]bool{}
		for _, tp := range api.MapTuples {
			if len(tp) < 1 {
				continue
			}
			// all arity tuples; of the small auxiliary tuples only those with relations
			k := api.Key(tp)
			if seen[k] {
				continue
			}
			seen[k] = true
			scs = append(scs, arityScenario(tp, d))
		}
		return &Check{ID: "C14", Scenarios: scs,
			Rule: fmt.Sprintf("for each of %d ordered type tuples (every arity 1-12 of MapN with the relation component first, in the middle and last, arity>=7 with two relations; the same tuples for FilterN/QueryN 0-8, ExchangeN 1-8, ObserverN 1-4; 12 component types of distinct sizes and kinds) all histories up to the depth bound over that family's methods (NewEntity/NewEntityFn/nil, NewBatch/NewBatchFn, Add/AddFn/nil, Set, Get+write, Remove, GetRelation, SetRelations, AddBatch/AddBatchFn, RemoveBatch, SetRelationsBatch, ExchangeN Add/Exchange/Remove + batch forms, FilterN Register/Unregister/Query/Batch, typed and generic observers) are executed through the typed variant; after every history the world is observed through the ID-based API and compared with the model (= the ID-based semantics), MapN.Get/GetUnchecked pointers must be address-equal to Unsafe.Get in type-parameter order, typed queries yield the same multiset and pointers as UnsafeQuery, typed observers fire exactly when the generic observer with For(...) does and receive the right pointers, relation indices refer to parameter positions; non-trivial = >=1 alive entity", len(scs)),
		}
	}
}

func init() {
	// arity sweep for sub-builds (C20): C14's scenarios at depth 2 (quick) / 3 (thorough), single threaded
	SubModes["arity"] = func(args []string) *SubResult {
		tier := Quick
		if len(args) > 0 && args[0] == "thorough" {
			tier = Thorough
		}
		chk := Registry["C14"](tier)
		r := &SubResult{}
		// fixed misuse script per instantiated filter arity (outcomes compared across builds)
		for _, t := range api.FilterTuples {
			r.Digests = append(r.Digests, fmt.Sprintf("%v: %s", t, queryMisuseScript(t)))
		}
		seen := map[string]bool{}
		for _, sc := range chk.Scenarios {
			sc.Depth--
			rep := engine.Explore(sc, engine.Options{Workers: 1})
			r.Cases += int(rep.Histories)
			r.Steps += int(rep.Transitions)
			for _, f := range rep.Found {
				k := f.V.Kind + "|" + f.OpKind
				if !seen[k] && len(r.Violations) < 10 {
					seen[k] = true
					v := f.V
					v.Msg = fmt.Sprintf("%s: %s (history %v)", f.Scenario, v.Msg, f.Hist)
					r.Violations = append(r.Violations, v)
				}
			}
		}
		return r
	}
}

// queryMisuseScript runs a fixed misuse script on a typed query of the tuple and returns the outcome
// (panicked / returned value) of every call; compared across builds by C20.
func queryMisuseScript(tuple []ct.Comp) string {
	x := drv.NewWorld(drv.Config{Cap: 4, Universe: allComps}, nil, nil, 1, drv.Oracle{})
	cs := ct.Of(tuple...)
	var rels []model.RelT
	for _, c := range cs.Rels().List() {
		rels = append(rels, model.RelT{C: c, T: model.ZeroTarget})
	}
	for k := 0; k < 3; k++ {
		if cs == 0 {
			x.Exec(model.Op{K: model.OpNewPlain})
		} else {
			x.Exec(model.Op{K: model.OpNew, Path: model.PathUnsafe, Cs: cs, T: rels})
		}
	}
	fl := api.TypedFilter(x.Env, tuple)
	out := ""
	rec := func(name string, f func() string) {
		out += name + "=" + tryCall(f) + ";"
	}
	probe := func(q api.Query, tag string) {
		rec(tag+"Entity", func() string { return entStr(q.Entity()) })
		rec(tag+"Get", func() string {
			s := ""
			for k, p := range q.Get() {
				tok, _ := ct.Read(tuple[k], p)
				if !ct.HasValue(tuple[k]) {
					_ = *(*struct{})(p)
				}
				s += fmt.Sprint(tok) + ","
			}
			return s
		})
		if len(tuple) > 0 && cs.Rels() != 0 {
			rec(tag+"GetRelation", func() string { return entStr(q.GetRelation(cs.Rels().List()[0])) })
		}
	}
	q := fl.Query(nil)
	probe(q, "fresh.")
	rec("Next1", func() string { return fmt.Sprint(q.Next()) })
	probe(q, "row0.")
	rec("Next2", func() string { return fmt.Sprint(q.Next()) })
	q.Close()
	probe(q, "closed.")
	rec("closed.Next", func() string { return fmt.Sprint(q.Next()) })
	rec("closed.Next again", func() string { return fmt.Sprint(q.Next()) })
	probe(q, "closed2.")
	rec("closed.Count", func() string { return fmt.Sprint(q.Count()) })
	q2 := fl.Query(nil)
	n := 0
	for q2.Next() && n < 10 {
		n++
	}
	out += fmt.Sprintf("visited=%d;", n)
	probe(q2, "done.")
	rec("done.Next", func() string { return fmt.Sprint(q2.Next()) })
	probe(q2, "done2.")
	rec("locked", func() string { return fmt.Sprint(x.W.IsLocked()) })
	return out
}
