package props

import (
	"fmt"

	"verif/mc/api"
	"verif/mc/ct"
	"verif/mc/drv"
	"verif/mc/engine"
	"verif/mc/model"
)

var allComps = []ct.Comp{ct.P, ct.Q, ct.R1, ct.S, ct.Z, ct.L, ct.R2, ct.T7, ct.T8, ct.T9, ct.T10, ct.T11}

func instantiated(list [][]ct.Comp, t []ct.Comp) bool {
	k := api.Key(t)
	for _, x := range list {
		if api.Key(x) == k {
			return true
		}
	}
	return false
}

// arityScenario builds the per-tuple scenario of C14.
func arityScenario(tuple []ct.Comp, depth int) *engine.Scenario {
	return arityScenarioPath(tuple, depth, model.PathMapN)
}

// arityScenarioPath: path is PathMapN, or PathMap (the single-component Map[T]) for 1-tuples.
func arityScenarioPath(tuple []ct.Comp, depth int, path model.Path) *engine.Scenario {
	cs := ct.Of(tuple...)
	n := len(tuple)
	// X: a non-relation component outside the tuple (none for arity 12)
	x := ct.Comp(ct.NumComps)
	for _, c := range []ct.Comp{ct.T9, ct.P, ct.Q, ct.L, ct.T10} {
		if !cs.Has(c) {
			x = c
			break
		}
	}
	hasX := x < ct.NumComps
	// Y: a second non-relation component outside the tuple
	y := ct.Comp(ct.NumComps)
	for _, c := range []ct.Comp{ct.T10, ct.T11, ct.T8, ct.Q} {
		if !cs.Has(c) && c != x {
			y = c
			break
		}
	}
	hasY := hasX && y < ct.NumComps
	canEx := n <= 8 && instantiated(api.ExchangeTuples, tuple)
	canFilter := n <= 8 && instantiated(api.FilterTuples, tuple)
	canObs := n <= 4 && instantiated(api.ObserverTuples, tuple)
	relc := cs.Rels().List()
	filters := []model.FilterSpec{
		{With: 0, Without: ct.Of(tuple[0])}, // f0: everything lacking the first tuple component
	}
	if canFilter {
		filters = append(filters, model.FilterSpec{Params: tuple}) // f1
	} else {
		filters = append(filters, model.FilterSpec{With: cs})
	}
	if hasX {
		filters = append(filters, model.FilterSpec{Params: []ct.Comp{x}, Without: ct.Of(tuple[0])}) // f2
	}
	fixedF := -1
	if canFilter && hasX && len(relc) > 0 {
		// f3: the typed filter with a permanent relation target (#0), used for batches as well as for queries
		fixedF = len(filters)
		filters = append(filters, model.FilterSpec{Params: tuple, Rels: rel(relc[0], 0)})
	}
	family := []model.FilterSpec{{}, {Params: tuple, Unsafe: true}}
	if canFilter {
		family = append(family, model.FilterSpec{Params: tuple}, model.FilterSpec{Params: tuple, Exclusive: true})
		if hasX {
			family = append(family, model.FilterSpec{Params: tuple, Without: ct.Of(x)}, model.FilterSpec{Params: tuple, With: ct.Of(x)})
			// two excluded components (given in two separate Without calls)
			for _, y := range []ct.Comp{ct.T10, ct.T11, ct.T8, ct.Q} {
				if !cs.Has(y) && y != x {
					family = append(family, model.FilterSpec{Params: tuple, Without: ct.Of(x, y)})
					break
				}
			}
		}
		for _, rc := range relc {
			family = append(family, model.FilterSpec{Params: tuple, Rels: rel(rc, 0)}, model.FilterSpec{Params: tuple, Rels: rel(rc, model.ZeroTarget)})
		}
		if len(relc) >= 2 {
			// targets for both relation components at once (entities may agree in the first and differ in the second)
			both := func(t1, t2 int) []model.RelT {
				return []model.RelT{{C: relc[0], T: t1}, {C: relc[1], T: t2}}
			}
			family = append(family, model.FilterSpec{Params: tuple, Rels: both(0, 0)}, model.FilterSpec{Params: tuple, Rels: both(0, model.ZeroTarget)},
				model.FilterSpec{Params: tuple, Rels: both(model.ZeroTarget, 0)})
		}
	}
	var obs []model.ObsSpec
	var pre []model.Op
	for _, ev := range []int{model.EvCreateEntity, model.EvAddComponents, model.EvRemoveComponents, model.EvSetComponents, model.EvRemoveEntity} {
		if canObs {
			obs = append(obs, model.ObsSpec{Event: ev, Params: tuple})
		}
		// the generic observer with For(...) must see exactly the events the ID-based API would emit, at every arity
		obs = append(obs, model.ObsSpec{Event: ev, For: cs})
	}
	toggle := -1
	if canObs {
		// typed observers with every configuration method, and one that is unregistered / registered again
		toggle = 0
		obs = append(obs, model.ObsSpec{Event: model.EvSetComponents, Params: tuple, Exclusive: true})
		if hasX {
			obs = append(obs,
				model.ObsSpec{Event: model.EvAddComponents, Params: tuple, With: ct.Of(x)},
				model.ObsSpec{Event: model.EvRemoveComponents, Params: tuple, Without: ct.Of(x)},
				model.ObsSpec{Event: model.EvRemoveEntity, Params: tuple, For: ct.Of(x)})
		}
	}
	if len(relc) > 0 {
		obs = append(obs, model.ObsSpec{Event: model.EvAddRelations}, model.ObsSpec{Event: model.EvRemoveRelations})
		// filtered relation observers: the typed variants must pass the same old/new masks as the ID-based API
		obs = append(obs, model.ObsSpec{Event: model.EvAddRelations, For: ct.Of(relc[0])}, model.ObsSpec{Event: model.EvRemoveRelations, For: ct.Of(relc[len(relc)-1])})
		for _, c := range tuple {
			if !cs.Rels().Has(c) {
				obs = append(obs, model.ObsSpec{Event: model.EvAddRelations, With: ct.Of(c)}, model.ObsSpec{Event: model.EvRemoveRelations, With: ct.Of(c)})
				break
			}
		}
		if hasX {
			obs = append(obs, model.ObsSpec{Event: model.EvAddRelations, Without: ct.Of(x)})
		}
	}
	for i := range obs {
		pre = append(pre, model.Op{K: model.OpObserve, O: i})
	}
	// entity #0: a plain target
	pre = append(pre, model.Op{K: model.OpNewPlain})
	relsTo := func(t int) []model.RelT {
		var out []model.RelT
		for _, c := range relc {
			out = append(out, model.RelT{C: c, T: t})
		}
		return out
	}
	relsOf := func(set ct.Set, t int) []model.RelT {
		var out []model.RelT
		for _, c := range relc {
			if set.Has(c) {
				out = append(out, model.RelT{C: c, T: t})
			}
		}
		return out
	}
	// typed observers of arity >= 2: transitions that affect a strict subset of the observed components
	// (everything but the last one) must not fire them
	partial := canObs && n >= 2
	last := tuple[n-1]
	sub := cs &^ ct.Of(last)
	alpha := func(m *model.Model) []model.Op {
		var ops []model.Op
		al := m.Alive()
		tgt := model.ZeroTarget
		if m.IsAlive(0) {
			tgt = 0
		}
		if len(al) < 4 {
			for _, in := range []model.Init{model.InitValue, model.InitFn, model.InitNil} {
				ops = append(ops, model.Op{K: model.OpNew, Path: path, Cs: cs, Ord: tuple, Init: in, T: relsTo(tgt)})
			}
			ops = append(ops, model.Op{K: model.OpNewBatch, Path: path, Cs: cs, Ord: tuple, N: 2, T: relsTo(tgt)})
			ops = append(ops, model.Op{K: model.OpNewBatch, Path: path, Cs: cs, Ord: tuple, N: 2, Init: model.InitFn, Fn: true, T: relsTo(model.ZeroTarget)})
			ops = append(ops, model.Op{K: model.OpNewPlain})
			if hasX {
				ops = append(ops, model.Op{K: model.OpNew, Path: model.PathUnsafe, Cs: ct.Of(x)})
				if y := ct.T10; !cs.Has(y) && y != x {
					ops = append(ops, model.Op{K: model.OpAdd, Path: model.PathUnsafe, E: 0, Cs: ct.Of(y)})
				}
				if hasY && canEx {
					ops = append(ops, model.Op{K: model.OpNew, Path: model.PathUnsafe, Cs: ct.Of(x, y)})
				}
			}
			if partial {
				ops = append(ops, model.Op{K: model.OpNew, Path: model.PathUnsafe, Cs: ct.Of(last), T: relsOf(ct.Of(last), tgt)})
			}
			if len(relc) == 0 && canFilter && !cs.Has(ct.R1) {
				// a matching archetype WITH relation tables (two targets) next to the plain one
				ops = append(ops, model.Op{K: model.OpNew, Path: model.PathUnsafe, Cs: cs | ct.Of(ct.R1), T: rel(ct.R1, model.ZeroTarget)})
				if tgt == 0 {
					ops = append(ops, model.Op{K: model.OpNew, Path: model.PathUnsafe, Cs: cs | ct.Of(ct.R1), T: rel(ct.R1, 0)})
				}
			}
		}
		k := 0
		for _, e := range pick2(al) {
			c := m.Ents[e].Comps
			k++
			if c&cs == 0 {
				for _, in := range []model.Init{model.InitValue, model.InitFn, model.InitNil} {
					ops = append(ops, model.Op{K: model.OpAdd, Path: path, E: e, Cs: cs, Ord: tuple, Init: in, T: relsTo(tgt)})
				}
				if canEx {
					ops = append(ops, model.Op{K: model.OpAdd, Path: model.PathExchange, E: e, Cs: cs, Ord: tuple, Init: []model.Init{model.InitValue, model.InitFn, model.InitNil}[k%3], T: relsTo(model.ZeroTarget)})
					if len(relc) > 0 && tgt == 0 {
						// the same (cached) ExchangeN instance is used with changing targets
						ops = append(ops, model.Op{K: model.OpAdd, Path: model.PathExchange, E: e, Cs: cs, Ord: tuple, Init: model.InitValue, T: relsTo(tgt)})
					}
					if hasX && c.Has(x) {
						if hasY && c.Has(y) {
							// two removed components (given in two chained Removes calls)
							ops = append(ops, model.Op{K: model.OpExchange, Path: model.PathExchange, E: e, Cs: cs, Ord: tuple, Rm: ct.Of(x, y), Init: []model.Init{model.InitValue, model.InitFn}[k%2], T: relsTo(tgt)})
						} else {
							ops = append(ops, model.Op{K: model.OpExchange, Path: model.PathExchange, E: e, Cs: cs, Ord: tuple, Rm: ct.Of(x), Init: []model.Init{model.InitValue, model.InitFn}[k%2], T: relsTo(tgt)})
						}
					}
				}
			}
			if canEx && hasX && c.Has(x) {
				// removal through the ExchangeN of this arity (its type parameters are not involved)
				ops = append(ops, model.Op{K: model.OpRemove, Path: model.PathExchange, E: e, Rm: ct.Of(x), Ord: tuple})
			}
			if partial && c&cs == ct.Of(last) {
				ops = append(ops, model.Op{K: model.OpAdd, Path: model.PathUnsafe, E: e, Cs: sub, T: relsOf(sub, tgt)})
			}
			if c&cs == cs {
				ops = append(ops,
					model.Op{K: model.OpSet, Path: path, E: e, Cs: cs, Ord: tuple},
					model.Op{K: model.OpWrite, Path: path, E: e, Cs: cs, Ord: tuple},
					model.Op{K: model.OpRemove, Path: path, E: e, Rm: cs, Ord: tuple},
				)
				if partial {
					ops = append(ops, model.Op{K: model.OpRemove, Path: model.PathUnsafe, E: e, Rm: sub})
				}
				if len(relc) > 0 && e != 0 {
					nt := model.ZeroTarget
					if m.Ents[e].Tgt[relc[0]] == model.ZeroTarget && tgt == 0 {
						nt = 0
					}
					ops = append(ops, model.Op{K: model.OpSetRel, Path: path, E: e, Ord: tuple, T: rel(relc[len(relc)-1], nt)})
					ops = append(ops, model.Op{K: model.OpSetRel, Path: path, E: e, Ord: tuple, T: relsTo(nt)})
				}
			}
			ops = append(ops, model.Op{K: model.OpRemoveEntity, E: e})
		}
		// batch forms
		ops = append(ops,
			model.Op{K: model.OpAddBatch, Path: path, F: 0, Cs: cs, Ord: tuple, Init: model.InitFn, Fn: true, T: relsTo(tgt)},
			model.Op{K: model.OpAddBatch, Path: path, F: 0, Cs: cs, Ord: tuple, T: relsTo(model.ZeroTarget)},
			model.Op{K: model.OpRemoveBatch, Path: path, F: 1, Rm: cs, Ord: tuple, Fn: true},
			model.Op{K: model.OpRemoveEntities, F: 1, Fn: true},
		)
		if canEx && hasX {
			ops = append(ops,
				model.Op{K: model.OpExchangeBatch, F: 2, Cs: cs, Ord: tuple, Rm: ct.Of(x), Init: model.InitFn, Fn: true, T: relsTo(tgt)},
				model.Op{K: model.OpAddBatch, Path: model.PathExchange, F: 0, Cs: cs, Ord: tuple, Init: model.InitNil, T: relsTo(tgt)},
				model.Op{K: model.OpRemoveBatch, Path: model.PathExchange, F: 1, Rm: cs},
				model.Op{K: model.OpAddBatch, Path: model.PathExchange, F: 0, Cs: cs, Ord: tuple, Init: model.InitValue, T: relsTo(model.ZeroTarget)},
				model.Op{K: model.OpExchangeBatch, F: 2, Cs: cs, Ord: tuple, Rm: ct.Of(x), Init: model.InitValue, T: relsTo(tgt)},
				model.Op{K: model.OpRemoveBatch, Path: model.PathExchange, F: 2, Rm: ct.Of(x), Ord: tuple, Fn: true},
			)
		}
		if len(relc) > 0 {
			ops = append(ops, model.Op{K: model.OpSetRelBatch, Path: path, F: 1, Ord: tuple, T: relsTo(model.ZeroTarget), Fn: true})
			if tgt == 0 {
				ops = append(ops, model.Op{K: model.OpSetRelBatch, Path: path, F: 1, Ord: tuple, T: rel(relc[0], 0)})
			}
		}
		if toggle >= 0 {
			ops = append(ops, model.Op{K: model.OpUnobserve, O: toggle}, model.Op{K: model.OpObserve, O: toggle})
		}
		if fixedF >= 0 {
			// batch selection through the filter with the permanent target must equal its query
			ops = append(ops,
				model.Op{K: model.OpRemoveEntities, F: fixedF, Fn: true},
				model.Op{K: model.OpSetRelBatch, Path: path, F: fixedF, Ord: tuple, T: rel(relc[0], model.ZeroTarget)})
		}
		if canFilter {
			ops = append(ops, regOps(m, []int{1})...)
			if len(relc) > 0 {
				// several queries of the same filter with different per-query targets open at once
				ops = append(ops, queryOps(m, []int{1}, func(int) [][]model.RelT {
					out := [][]model.RelT{rel(relc[0], model.ZeroTarget)}
					if tgt == 0 {
						out = append(out, rel(relc[0], 0))
					}
					return out
				})...)
			}
		}
		return validOnly(m, ops)
	}
	preludes := [][]model.Op{pre}
	if (canFilter || canEx) && len(relc) > 0 {
		// children of #0 and of the zero entity, and one Batch(rel...) call on the filter beforehand
		p2 := append([]model.Op{}, pre...)
		if canEx {
			// the child of #0 is made through the (cached, later re-used) ExchangeN instance
			p2 = append(p2, model.Op{K: model.OpNewPlain},
				model.Op{K: model.OpAdd, Path: model.PathExchange, E: 1, Cs: cs, Ord: tuple, Init: model.InitFn, T: relsTo(0)})
		} else {
			p2 = append(p2, model.Op{K: model.OpNew, Path: path, Cs: cs, Ord: tuple, T: relsTo(0)})
		}
		p2 = append(p2, model.Op{K: model.OpNew, Path: path, Cs: cs, Ord: tuple, T: relsTo(model.ZeroTarget)})
		if canFilter {
			p2 = append(p2, model.Op{K: model.OpSetRelBatch, Path: path, F: 1, Ord: tuple, QT: rel(relc[0], 0), T: rel(relc[0], 0)})
		}
		preludes = append(preludes, p2)
	}
	return &engine.Scenario{
		Name:     fmt.Sprintf("C14-arity%d%v%s", n, tuple, map[bool]string{true: "/Map", false: ""}[path == model.PathMap]),
		Cfgs:     []drv.Config{{Cap: 1, Universe: allComps}},
		Filters:  filters,
		Obs:      obs,
		Slots:    2,
		Oracle:   drv.Oracle{World: true, Typed: true, Family: family, Filters: true, Lock: true, Events: true, InCb: canObs, InCbPtr: true, Tuple: tuple},
		Preludes: preludes,
		Alphabet: alpha,
		Depth:    depth,
	}
}

// missingScenario: for every position j of the tuple an entity that has all tuple components except the
// j-th (then completed by adding it): MapN.HasAll must be false, MapN.Get must return nil exactly at j, the
// typed filter must not match; afterwards everything must agree with the complete entity.
func missingScenario(tuple []ct.Comp) *engine.Scenario {
	cs := ct.Of(tuple...)
	n := len(tuple)
	relc := cs.Rels().List()
	relsOf := func(set ct.Set, t int) []model.RelT {
		var out []model.RelT
		for _, c := range relc {
			if set.Has(c) {
				out = append(out, model.RelT{C: c, T: t})
			}
		}
		return out
	}
	var family []model.FilterSpec
	if n <= 8 && instantiated(api.FilterTuples, tuple) {
		family = append(family, model.FilterSpec{Params: tuple}, model.FilterSpec{Params: tuple, Exclusive: true})
	}
	family = append(family, model.FilterSpec{Params: tuple, Unsafe: true})
	alpha := func(m *model.Model) []model.Op {
		var ops []model.Op
		al := m.Alive()
		if len(al) == 1 {
			for j := range tuple {
				sub := cs &^ ct.Of(tuple[j])
				ops = append(ops, model.Op{K: model.OpNew, Path: model.PathUnsafe, Cs: sub, T: relsOf(sub, j%2-1)})
			}
		} else if len(al) == 2 {
			e := al[1]
			miss := cs &^ m.Ents[e].Comps
			if miss != 0 {
				ops = append(ops, model.Op{K: model.OpAdd, Path: model.PathUnsafe, E: e, Cs: miss, T: relsOf(miss, 0)})
			}
			ops = append(ops, model.Op{K: model.OpNew, Path: model.PathMapN, Cs: cs, Ord: tuple, T: relsOf(cs, 0)})
		}
		return validOnly(m, ops)
	}
	return &engine.Scenario{
		Name:     fmt.Sprintf("C14-missing%d%v", n, tuple),
		Cfgs:     []drv.Config{{Cap: 1, Universe: allComps}},
		Slots:    1,
		Oracle:   drv.Oracle{World: true, Typed: true, Family: family, Lock: true, Tuple: tuple},
		Preludes: [][]model.Op{{{K: model.OpNewPlain}}},
		Alphabet: alpha,
		Depth:    2,
	}
}

// arity0Scenario: Filter0 / Query0 (no type parameters) with every configuration method, registered and not.
func arity0Scenario(depth int) *engine.Scenario {
	filters := []model.FilterSpec{
		{},                     // f0 Filter0
		{Exclusive: true},      // f1 Filter0.Exclusive: entities without components
		{With: ct.Of(ct.P)},    // f2 Filter0.With
		{Without: ct.Of(ct.P)}, // f3 Filter0.Without
		{With: ct.Of(ct.R1), Rels: rel(ct.R1, 0)}, // f4 Filter0.With(rel).Relations(...)
		{With: ct.Of(ct.P), Without: ct.Of(ct.Q)}, // f5
	}
	family := []model.FilterSpec{{}, {Exclusive: true}, {With: ct.Of(ct.P)}, {Without: ct.Of(ct.P)}, {With: ct.Of(ct.P), Exclusive: true},
		{With: ct.Of(ct.R1)}, {With: ct.Of(ct.R1), Rels: rel(ct.R1, model.ZeroTarget)}, {With: ct.Of(ct.P, ct.Q)}, {Without: ct.Of(ct.P, ct.Q)}}
	alpha := func(m *model.Model) []model.Op {
		var ops []model.Op
		al := m.Alive()
		tgt := model.ZeroTarget
		if m.IsAlive(0) {
			tgt = 0
		}
		if len(al) < 4 {
			ops = append(ops,
				model.Op{K: model.OpNewPlain},
				model.Op{K: model.OpNew, Path: model.PathMapN, Cs: ct.Of(ct.P)},
				model.Op{K: model.OpNew, Path: model.PathMapN, Cs: ct.Of(ct.P, ct.Q)},
				model.Op{K: model.OpNew, Path: model.PathMapN, Cs: ct.Of(ct.R1), T: rel(ct.R1, tgt)},
				model.Op{K: model.OpNewEntities, N: 2},
			)
		}
		for _, e := range pick2(al) {
			c := m.Ents[e].Comps
			if !c.Has(ct.P) {
				ops = append(ops, model.Op{K: model.OpAdd, Path: model.PathUnsafe, E: e, Cs: ct.Of(ct.P)})
			} else {
				ops = append(ops, model.Op{K: model.OpRemove, Path: model.PathUnsafe, E: e, Rm: ct.Of(ct.P)})
			}
			ops = append(ops, model.Op{K: model.OpRemoveEntity, E: e})
		}
		ops = append(ops,
			model.Op{K: model.OpRemoveEntities, F: 1, Fn: true},
			model.Op{K: model.OpRemoveEntities, F: 3},
			model.Op{K: model.OpAddBatch, Path: model.PathMapN, F: 3, Cs: ct.Of(ct.P), Init: model.InitFn, Fn: true},
			model.Op{K: model.OpRemoveBatch, Path: model.PathMapN, F: 5, Rm: ct.Of(ct.P)},
		)
		ops = append(ops, regOps(m, []int{0, 1, 2, 3, 4})...)
		ops = append(ops, queryOps(m, []int{0, 1, 3}, nil)...)
		return validOnly(m, ops)
	}
	return &engine.Scenario{
		Name:    "C14-arity0",
		Cfgs:    []drv.Config{{Cap: 1, Universe: []ct.Comp{ct.P, ct.Q, ct.R1}}},
		Filters: filters,
		Slots:   2,
		Oracle:  drv.Oracle{World: true, Family: family, Filters: true, Lock: true, Stats: true},
		Preludes: [][]model.Op{
			{{K: model.OpNewPlain}},
			{{K: model.OpNewPlain}, {K: model.OpNew, Path: model.PathMapN, Cs: ct.Of(ct.P)}, {K: model.OpNew, Path: model.PathMapN, Cs: ct.Of(ct.R1), T: rel(ct.R1, 0)},
				{K: model.OpRegister, F: 0}, {K: model.OpRegister, F: 1}, {K: model.OpRegister, F: 4}},
		},
		Alphabet: alpha,
		Depth:    depth,
	}
}

func init() {
	Registry["C14"] = func(t Tier) *Check {
		d := 3
		if t == Thorough {
			d = 4
		}
		var scs []*engine.Scenario
		seen := map[string]bool{}
		for _, tp := range api.MapTuples {
			if len(tp) < 1 {
				continue
			}
			// all arity tuples; of the small auxiliary tuples only those with relations
			k := api.Key(tp)
			if seen[k] {
				continue
			}
			seen[k] = true
			scs = append(scs, arityScenario(tp, d))
		}
		// the single-component mapper Map[T]: the same alphabet through its methods
		for _, c := range []ct.Comp{ct.P, ct.R1, ct.S, ct.Z, ct.L} {
			scs = append(scs, arityScenarioPath([]ct.Comp{c}, d, model.PathMap))
		}
		scs = append(scs, arity0Scenario(d+1))
		for _, tp := range api.MapTuples {
			if len(tp) >= 2 {
				scs = append(scs, missingScenario(tp))
			}
		}
		return &Check{ID: "C14", Scenarios: scs,
			Rule: fmt.Sprintf("for each of %d scenarios = ordered type tuples (every arity 1-12 of MapN with the relation component first, in the middle and last, arity>=7 with two relations, arities 4-10 also without relations; the same tuples for FilterN/QueryN 0-8, ExchangeN 1-8, ObserverN 1-4; Map[T] for 5 component kinds; Filter0/Query0; 12 component types of distinct sizes and kinds; wrappers constructed alternately by NewX/ObserveN and by the New method) all histories up to the depth bound over that family's methods (NewEntity/NewEntityFn/nil, NewBatch/NewBatchFn, Add/AddFn/nil by value and by callback, Set, Get+write, Remove, GetRelation(+Unchecked), SetRelations, AddBatch/AddBatchFn, RemoveBatch, SetRelationsBatch, ExchangeN Add/Exchange/Remove + batch forms by value and by callback with chained Removes, FilterN With/Without/Exclusive/Relations/Register/Unregister/Query/Batch, typed observers with For/With/Without/Exclusive and Unregister/Register, filtered relation observers, generic observers) are executed through the typed variant; after every history the world is observed through the ID-based API and compared with the model (= the ID-based semantics), MapN.Get/GetUnchecked pointers must be address-equal to Unsafe.Get in type-parameter order, typed queries yield the same multiset and pointers as UnsafeQuery, typed observers fire exactly when the generic observer with For(...) does and receive the right pointers, relation indices refer to parameter positions; non-trivial = >=1 alive entity", len(scs)),
		}
	}
}

func init() {
	// arity sweep for sub-builds (C20): C14's scenarios at depth 2 (quick) / 3 (thorough), single threaded
	SubModes["arity"] = func(args []string) *SubResult {
		tier := Quick
		if len(args) > 0 && args[0] == "thorough" {
			tier = Thorough
		}
		chk := Registry["C14"](tier)
		r := &SubResult{}
		// fixed misuse script per instantiated filter arity (outcomes compared across builds)
		for _, t := range api.FilterTuples {
			r.Digests = append(r.Digests, fmt.Sprintf("%v: %s", t, queryMisuseScript(t)))
		}
		seen := map[string]bool{}
		for _, sc := range chk.Scenarios {
			sc.Depth--
			rep := engine.Explore(sc, engine.Options{Workers: 1, Deadline: SubDeadlineTime()})
			if !rep.Exhaustive {
				r.Truncated = true
			}
			r.Cases += int(rep.Histories)
			r.Steps += int(rep.Transitions)
			for _, f := range rep.Found {
				k := f.V.Kind + "|" + f.OpKind
				if !seen[k] && len(r.Violations) < 10 {
					seen[k] = true
					v := f.V
					v.Msg = fmt.Sprintf("%s: %s (history %v)", f.Scenario, v.Msg, f.Hist)
					r.Violations = append(r.Violations, v)
				}
			}
		}
		return r
	}
}

// queryMisuseScript runs a fixed misuse script on a typed query of the tuple and returns the outcome
// (panicked / returned value) of every call; compared across builds by C20.
func queryMisuseScript(tuple []ct.Comp) string {
	x := drv.NewWorld(drv.Config{Cap: 4, Universe: allComps}, nil, nil, 1, drv.Oracle{})
	cs := ct.Of(tuple...)
	var rels []model.RelT
	for _, c := range cs.Rels().List() {
		rels = append(rels, model.RelT{C: c, T: model.ZeroTarget})
	}
	for k := 0; k < 3; k++ {
		if cs == 0 {
			x.Exec(model.Op{K: model.OpNewPlain})
		} else {
			x.Exec(model.Op{K: model.OpNew, Path: model.PathUnsafe, Cs: cs, T: rels})
		}
	}
	fl := api.TypedFilter(x.Env, tuple)
	out := ""
	rec := func(name string, f func() string) {
		out += name + "=" + tryCall(f) + ";"
	}
	probe := func(q api.Query, tag string) {
		rec(tag+"Entity", func() string { return entStr(q.Entity()) })
		rec(tag+"Get", func() string {
			s := ""
			for k, p := range q.Get() {
				tok, _ := ct.Read(tuple[k], p)
				if !ct.HasValue(tuple[k]) {
					_ = *(*struct{})(p)
				}
				s += fmt.Sprint(tok) + ","
			}
			return s
		})
		if len(tuple) > 0 && cs.Rels() != 0 {
			rec(tag+"GetRelation", func() string { return entStr(q.GetRelation(cs.Rels().List()[0])) })
		}
	}
	q := fl.Query(nil)
	probe(q, "fresh.")
	rec("Next1", func() string { return fmt.Sprint(q.Next()) })
	probe(q, "row0.")
	rec("Next2", func() string { return fmt.Sprint(q.Next()) })
	q.Close()
	probe(q, "closed.")
	rec("closed.Next", func() string { return fmt.Sprint(q.Next()) })
	rec("closed.Next again", func() string { return fmt.Sprint(q.Next()) })
	probe(q, "closed2.")
	rec("closed.Count", func() string { return fmt.Sprint(q.Count()) })
	q2 := fl.Query(nil)
	n := 0
	for q2.Next() && n < 10 {
		n++
	}
	out += fmt.Sprintf("visited=%d;", n)
	probe(q2, "done.")
	rec("done.Next", func() string { return fmt.Sprint(q2.Next()) })
	probe(q2, "done2.")
	rec("locked", func() string { return fmt.Sprint(x.W.IsLocked()) })
	return out
}
