package props

import (
	"encoding/binary"
	"fmt"
	"hash/fnv"
	"os"
	"sort"
	"strconv"
	"strings"
	"sync"
	"unsafe"

	"github.com/mlange-42/ark/ecs"

	"verif/mc/api"
	"verif/mc/ct"
	"verif/mc/drv"
	"verif/mc/engine"
	"verif/mc/model"
)

// ---------------------------------------------------------------- C20: build configurations (E3)
//
// The same deterministic enumeration of histories is executed by four separately built
// binaries (no tag, ark_tiny, ark_debug, both). Every history yields a trace: for each call
// whether it panicked or returned, what it returned (handles, values, query orders).
// Panic messages are ignored. Traces are compared through digests.

// Misuse codes (Op.K == OpInvalid with Inv == invMisuse, N = code).
const (
	invMisuse = 100

	muQEntity = iota
	muQGet
	muQGetRelation
	muQNext
	muQCountAt
	muMapSetMissing
	muUnsafeGetMissing
	muUnsafeRelMissing
	muMapRelMissing
	muMapGetMissing
	muMapNGetRelMissing
)

type traceWorld struct {
	x   *drv.World
	h   hashWriter
	log []string
	qs  []api.Query // raw query objects per slot (kept even after close/exhaustion)
	qf  []int
}

type hashWriter struct{ sum uint64 }

func (h *hashWriter) add(s string) {
	f := fnv.New64a()
	var b [8]byte
	binary.LittleEndian.PutUint64(b[:], h.sum)
	f.Write(b[:])
	f.Write([]byte(s))
	h.sum = f.Sum64()
}

// traceFilters / traceStats configure runTrace (set by the sub mode before enumeration).
var traceFilters = c20Filters()
var traceStats bool

func c20Filters() []model.FilterSpec {
	return []model.FilterSpec{
		{Params: []ct.Comp{ct.P}},                    // f0 typed
		{Params: []ct.Comp{ct.P, ct.R1}},             // f1 typed with relation
		{Params: []ct.Comp{ct.P}, Unsafe: true},      // f2 unsafe
		{Params: []ct.Comp{ct.P}, With: ct.Of(ct.Q)}, // f3 typed, registered in prelude
		{}, // f4 Filter0 / Query0
	}
}

func tryCall(f func() string) (out string) {
	defer func() {
		if r := recover(); r != nil {
			out = "PANIC"
		}
	}()
	return "ok:" + f()
}

func entStr(e ecs.Entity) string { return fmt.Sprintf("%d/%d", e.ID(), e.Gen()) }

// observe appends a digest of everything observable: every entity of the model (alive,
// components, values, relation targets) and the iteration order of three queries.
func (t *traceWorld) observe() {
	x := t.x
	u := x.W.Unsafe()
	var sb strings.Builder
	for i := range x.M.Ents {
		if i >= len(x.H) {
			break
		}
		h := x.H[i]
		out := tryCall(func() string {
			if !x.W.Alive(h) {
				return "dead"
			}
			s := "alive"
			for _, c := range x.Cfg.Universe {
				id := x.Env.ID(c)
				if u.Has(h, id) {
					tok, ok := ct.Read(c, u.Get(h, id))
					s += fmt.Sprintf(" %s=%d/%v", c, tok, ok)
					if ct.IsRel(c) {
						s += "->" + entStr(u.GetRelation(h, id))
					}
				}
			}
			return s
		})
		fmt.Fprintf(&sb, "#%d %s %s;", i, entStr(h), out)
	}
	for _, spec := range []model.FilterSpec{{}, {Params: []ct.Comp{ct.P}}, {Params: []ct.Comp{ct.R1}, Unsafe: true},
		{Params: []ct.Comp{ct.P}, Exclusive: true}, {Params: []ct.Comp{ct.P, ct.Q}, Exclusive: true, Unsafe: true}} {
		sp := spec
		out := tryCall(func() string {
			var fl api.Filter
			if sp.Unsafe {
				fl = api.NewUnsafeFilter(x.Env, sp.Params)
			} else {
				fl = api.TypedFilter(x.Env, sp.Params)
			}
			if sp.Exclusive {
				fl.Exclusive()
			}
			q := fl.Query(nil)
			s := strconv.Itoa(q.Count()) + ":"
			n := 0
			for q.Next() {
				s += entStr(q.Entity()) + ","
				n++
				if n > 64 {
					q.Close()
					return s + "RUNAWAY"
				}
			}
			return s
		})
		sb.WriteString(out + "|")
	}
	sb.WriteString(fmt.Sprintf("locked=%v", x.W.IsLocked()))
	if traceStats {
		sb.WriteString(" stats=" + x.StatsDigest())
	}
	t.h.add(sb.String())
	if t.log != nil {
		t.log = append(t.log, "  obs: "+sb.String())
	}
}

func (t *traceWorld) misuse(op model.Op) string {
	x := t.x
	u := x.W.Unsafe()
	switch op.N {
	case muQEntity, muQGet, muQGetRelation, muQNext, muQCountAt:
		q := t.qs[op.Q]
		if q == nil {
			return "noquery"
		}
		return tryCall(func() string {
			switch op.N {
			case muQEntity:
				return entStr(q.Entity())
			case muQGet:
				p := q.Get()
				s := ""
				for k, c := range x.M.Filters[t.qf[op.Q]].Params {
					tok, ok := ct.Read(c, p[k]) // dereferences the returned pointer
					if !ct.HasValue(c) {
						// zero-size component: force a dereference of the address for comparability
						_ = *(*struct{})(p[k])
					}
					s += fmt.Sprintf("%d/%v,", tok, ok)
				}
				return s
			case muQGetRelation:
				return entStr(q.GetRelation(ct.R1))
			case muQNext:
				return strconv.FormatBool(q.Next())
			default:
				n := q.Count()
				s := strconv.Itoa(n)
				if n > 0 {
					s += ":" + entStr(q.EntityAt(0))
				}
				return s
			}
		})
	}
	h := x.H[op.E]
	c := op.Tuple()[0]
	return tryCall(func() string {
		switch op.N {
		case muMapSetMissing:
			api.SingleMapper(x.Env, c).Set(h, []int64{7})
			return "set"
		case muUnsafeGetMissing:
			p := u.Get(h, x.Env.ID(c))
			tok, _ := ct.Read(c, p)
			return strconv.FormatInt(tok, 10)
		case muUnsafeRelMissing:
			return entStr(u.GetRelation(h, x.Env.ID(c)))
		case muMapRelMissing:
			return entStr(api.SingleMapper(x.Env, c).GetRelation(h, c))
		case muMapGetMissing:
			p := api.SingleMapper(x.Env, c).Get(h)[0]
			tok, _ := ct.Read(c, p)
			return strconv.FormatInt(tok, 10)
		case muMapNGetRelMissing:
			return entStr(api.TypedMapper(x.Env, []ct.Comp{ct.P, ct.R1}).GetRelation(h, ct.R1))
		}
		return "?"
	})
}

// runTrace executes a history; returns the trace digest and the enabled successors.
func runTrace(cfg drv.Config, prelude, hist []model.Op, alpha func(t *traceWorld) []model.Op, verbose bool) (uint64, []model.Op, []string) {
	x := drv.NewWorld(cfg, traceFilters, nil, 2, drv.Oracle{})
	t := &traceWorld{x: x, qs: make([]api.Query, 2), qf: make([]int, 2)}
	if verbose {
		t.log = []string{}
	}
	dead := false
	step := func(op model.Op) {
		if dead {
			return
		}
		var out string
		if op.K == model.OpInvalid && op.Inv == invMisuse {
			out = t.misuse(op)
		} else {
			v := x.Exec(op)
			switch {
			case v == nil:
				out = "ok"
				if op.K == model.OpOpen {
					t.qs[op.Q] = x.QueryObject(op.Q)
					t.qf[op.Q] = op.F
				}
				for _, i := range x.M.Alive() {
					_ = i
				}
			case v.Kind == "panic":
				// a valid call panicked in this build: part of the trace; the world may be torn, stop here
				out = "PANIC"
				dead = true
			default:
				out = "oracle:" + v.Kind
				dead = true
			}
		}
		t.h.add(op.String() + "=" + out)
		if t.log != nil {
			t.log = append(t.log, fmt.Sprintf("%v => %s", op, out))
		}
		if !dead {
			t.observe()
		}
	}
	for _, op := range prelude {
		step(op)
	}
	for _, op := range hist {
		step(op)
	}
	if dead {
		return t.h.sum, nil, t.log
	}
	return t.h.sum, alpha(t), t.log
}

func c20Alphabet(t *traceWorld) []model.Op {
	m := t.x.M
	var ops []model.Op
	al := m.Alive()
	if !m.Locked() {
		if len(al) < 3 {
			ops = append(ops,
				model.Op{K: model.OpNew, Path: model.PathMapN, Cs: ct.Of(ct.P)},
				model.Op{K: model.OpNew, Path: model.PathUnsafe, Cs: ct.Of(ct.P, ct.Q)},
				model.Op{K: model.OpNew, Path: model.PathMapN, Cs: ct.Of(ct.P, ct.R1), T: rel(ct.R1, model.ZeroTarget)},
			)
			if len(al) > 0 {
				ops = append(ops, model.Op{K: model.OpNew, Path: model.PathMapN, Cs: ct.Of(ct.P, ct.R1), T: rel(ct.R1, al[0])})
			}
		}
		for _, e := range pick2(al) {
			if !m.Ents[e].Comps.Has(ct.Q) {
				ops = append(ops, model.Op{K: model.OpAdd, Path: model.PathMapN, E: e, Cs: ct.Of(ct.Q)})
			} else {
				ops = append(ops, model.Op{K: model.OpRemove, Path: model.PathUnsafe, E: e, Rm: ct.Of(ct.Q)})
			}
			ops = append(ops, model.Op{K: model.OpRemoveEntity, E: e})
		}
		ops = append(ops, model.Op{K: model.OpRemoveEntities, F: 0})
	}
	for _, e := range pick2(al) {
		if m.Ents[e].Comps.Has(ct.P) {
			ops = append(ops, model.Op{K: model.OpSet, Path: model.PathMapN, E: e, Cs: ct.Of(ct.P)})
		}
	}
	ops = append(ops, queryOps(m, []int{0, 1, 2, 3, 4}, nil)...)
	ops = validOnly(m, ops)
	// misuse family
	for q := range t.qs {
		if t.qs[q] == nil {
			continue
		}
		for _, code := range []int{muQEntity, muQGet, muQNext, muQCountAt} {
			ops = append(ops, model.Op{K: model.OpInvalid, Inv: invMisuse, N: code, Q: q})
		}
		if t.qf[q] == 1 {
			ops = append(ops, model.Op{K: model.OpInvalid, Inv: invMisuse, N: muQGetRelation, Q: q})
		}
	}
	for _, e := range pick2(al) {
		cs := m.Ents[e].Comps
		if !cs.Has(ct.Q) {
			for _, code := range []int{muMapSetMissing, muUnsafeGetMissing, muMapGetMissing} {
				ops = append(ops, model.Op{K: model.OpInvalid, Inv: invMisuse, N: code, E: e, Cs: ct.Of(ct.Q)})
			}
		}
		if !cs.Has(ct.R1) {
			for _, code := range []int{muUnsafeRelMissing, muMapRelMissing, muMapNGetRelMissing} {
				ops = append(ops, model.Op{K: model.OpInvalid, Inv: invMisuse, N: code, E: e, Cs: ct.Of(ct.R1)})
			}
		}
		// GetRelation for a non-relation component (missing or present)
		for _, code := range []int{muUnsafeRelMissing, muMapRelMissing} {
			ops = append(ops, model.Op{K: model.OpInvalid, Inv: invMisuse, N: code, E: e, Cs: ct.Of(ct.Q)})
		}
	}
	return ops
}

type c20Task struct {
	cfg     drv.Config
	prelude []model.Op
	start   []model.Op
}

func c20Tasks(depth int) []c20Task {
	u := []ct.Comp{ct.P, ct.Q, ct.R1}
	nP := model.Op{K: model.OpNew, Path: model.PathMapN, Cs: ct.Of(ct.P)}
	pre := [][]model.Op{
		{{K: model.OpRegister, F: 3}},
		{nP, {K: model.OpNew, Path: model.PathMapN, Cs: ct.Of(ct.P, ct.Q)}, {K: model.OpNew, Path: model.PathMapN, Cs: ct.Of(ct.P, ct.R1), T: rel(ct.R1, 0)}, {K: model.OpRegister, F: 3}},
		// several rows in one table and a query in the middle of it (closing it there leaves the cursor inside the table)
		{nP, nP, nP, {K: model.OpOpen, F: 0, Q: 0}, {K: model.OpNext, Q: 0}},
		{{K: model.OpNew, Path: model.PathMapN, Cs: ct.Of(ct.P, ct.Q)}, {K: model.OpNew, Path: model.PathMapN, Cs: ct.Of(ct.P, ct.Q)}, {K: model.OpRegister, F: 3}, {K: model.OpOpen, F: 3, Q: 0}, {K: model.OpNext, Q: 0}, {K: model.OpOpen, F: 2, Q: 1}, {K: model.OpNext, Q: 1}},
	}
	var tasks []c20Task
	for _, cfg := range cfgs([]int{1}, []int{0, 40, 61}, []api.RelMode{api.RelByIdx}, u) {
		for _, p := range pre {
			_, s1, _ := runTrace(cfg, p, nil, c20Alphabet, false)
			for _, op1 := range s1 {
				tasks = append(tasks, c20Task{cfg, p, []model.Op{op1}})
			}
		}
	}
	return tasks
}

// c20RunTask enumerates all histories below the task start (DFS, deterministic order) and
// returns the combined digest, the number of histories, and optionally per-history lines.
func c20RunTask(t c20Task, depth int, lines *[]string) (uint64, int) {
	var h hashWriter
	n := 0
	var dfs func(hist []model.Op)
	dfs = func(hist []model.Op) {
		if pastDeadline() {
			return
		}
		d, succ, _ := runTrace(t.cfg, t.prelude, hist, c20Alphabet, false)
		n++
		h.add(strconv.FormatUint(d, 16))
		if lines != nil {
			*lines = append(*lines, fmt.Sprintf("%016x %v", d, hist))
		}
		if len(hist) >= depth {
			return
		}
		for _, op := range succ {
			dfs(append(hist, op))
		}
	}
	dfs(append([]model.Op{}, t.start...))
	return h.sum, n
}

func c20Depth(tier string) int {
	if tier == "thorough" {
		return 4
	}
	return 3
}

func init() {
	SubModes["C20"] = func(args []string) *SubResult {
		tier := "quick"
		if len(args) > 0 {
			tier = args[0]
		}
		depth := c20Depth(tier)
		tasks := c20Tasks(depth)
		r := &SubResult{}
		if len(args) >= 3 && args[1] == "task" {
			k, _ := strconv.Atoi(args[2])
			var lines []string
			c20RunTask(tasks[k], depth, &lines)
			r.Digests = lines
			return r
		}
		if len(args) >= 4 && args[1] == "hist" {
			k, _ := strconv.Atoi(args[2])
			j, _ := strconv.Atoi(args[3])
			var lines []string
			c20RunTask(tasks[k], depth, &lines)
			// re-run history j verbosely: recover its ops by re-enumeration
			var target []model.Op
			n := 0
			var dfs func(hist []model.Op)
			dfs = func(hist []model.Op) {
				if target != nil {
					return
				}
				_, succ, _ := runTrace(tasks[k].cfg, tasks[k].prelude, hist, c20Alphabet, false)
				if n == j {
					target = append([]model.Op{}, hist...)
					return
				}
				n++
				if len(hist) >= depth {
					return
				}
				for _, op := range succ {
					dfs(append(hist, op))
				}
			}
			dfs(append([]model.Op{}, tasks[k].start...))
			_, _, log := runTrace(tasks[k].cfg, tasks[k].prelude, target, c20Alphabet, true)
			r.Digests = log
			return r
		}
		shard, nshard := 0, 1
		if len(args) >= 4 && args[1] == "shard" {
			shard, _ = strconv.Atoi(args[2])
			nshard, _ = strconv.Atoi(args[3])
		}
		for k := range tasks {
			if k%nshard != shard {
				continue
			}
			d, n := c20RunTask(tasks[k], depth, nil)
			r.Digests = append(r.Digests, fmt.Sprintf("%d:%x", k, d))
			r.Cases += n
		}
		r.Steps = r.Cases * (depth + 2)
		r.Truncated = pastDeadline()
		return r
	}

	Registry["C20"] = func(t Tier) *Check {
		chk := &Check{ID: "C20",
			Rule:   "the same deterministic enumeration of histories (plain + relation moves through typed and ID-based paths, queries of 4 filters opened/advanced/closed in 2 slots, and the misuse family: Entity/Get(+dereference)/GetRelation/Next/Count+EntityAt on a query before the first Next, during iteration, after exhaustion and after Close; Map.Set / Unsafe.Get / Map.Get(+dereference) / GetRelation for a missing component) is executed by four separately built binaries (no tag, ark_tiny, ark_debug, ark_tiny+ark_debug), component IDs at offsets 0 and 40 (< 64 types); per history the trace (panicked/returned per call, returned handles and values, full observation of every entity and of three queries' iteration order after every call) is digested; the four digest streams must be equal; states = histories x 4 builds; non-trivial = histories containing at least one call",
			Assume: []string{"panic messages are not compared", "a call includes dereferencing the pointers it returns"},
		}
		chk.Special = func(tier Tier, rep *engine.Report) error {
			ts := "quick"
			if tier == Thorough {
				ts = "thorough"
			}
			tags := []string{"", "ark_tiny", "ark_debug", "ark_tiny,ark_debug"}
			res := make([]*SubResult, len(tags))
			os.Setenv("GOMAXPROCS", "1")
			const shards = 4
			all := make([][]*SubResult, len(tags))
			errs := make([]error, len(tags)*shards)
			var wg sync.WaitGroup
			for i, tg := range tags {
				if _, err := BuildTagged(tg); err != nil {
					os.Unsetenv("GOMAXPROCS")
					return err
				}
				all[i] = make([]*SubResult, shards)
				for sh := 0; sh < shards; sh++ {
					wg.Add(1)
					go func(i, sh int, tg string) {
						defer wg.Done()
						all[i][sh], errs[i*shards+sh] = RunSubPrebuilt("C20", tg, ts, "shard", strconv.Itoa(sh), strconv.Itoa(shards))
					}(i, sh, tg)
				}
			}
			wg.Wait()
			os.Unsetenv("GOMAXPROCS")
			for _, e := range errs {
				if e != nil {
					return e
				}
			}
			truncated := false
			for i := range tags {
				noteTruncated(rep, "C20", all[i]...)
				truncated = truncated || anyTruncated(all[i]...)
			}
			for i, tg := range tags {
				// merge shards: digests are "k:hash" for subtree k
				r := &SubResult{Tags: all[i][0].Tags}
				byK := map[int]string{}
				maxK := -1
				for _, p := range all[i] {
					r.Cases += p.Cases
					r.Steps += p.Steps
					for _, d := range p.Digests {
						var k int
						var h string
						fmt.Sscanf(d, "%d:%s", &k, &h)
						byK[k] = h
						if k > maxK {
							maxK = k
						}
					}
				}
				for k := 0; k <= maxK; k++ {
					r.Digests = append(r.Digests, byK[k])
				}
				res[i] = r
				rep.PerConfig = append(rep.PerConfig, fmt.Sprintf("C20 build tags=%q (%s): tasks=%d histories=%d", tg, r.Tags, len(r.Digests), r.Cases))
				rep.Histories += int64(r.Cases)
				rep.Transitions += int64(r.Steps)
			}
			rep.States += int64(res[0].Cases)
			rep.NonTrivial += int64(res[0].Cases)
			// the per-arity generated code differs between debug and release builds
			// (query_debug_gen.go / query_nodebug_gen.go): run the typed-vs-ID-based arity sweep in every build
			{
				os.Setenv("GOMAXPROCS", "1")
				ares := make([]*SubResult, len(tags))
				aerr := make([]error, len(tags))
				var wg2 sync.WaitGroup
				for i, tg := range tags {
					wg2.Add(1)
					go func(i int, tg string) {
						defer wg2.Done()
						ares[i], aerr[i] = RunSubPrebuilt("arity", tg, ts)
					}(i, tg)
				}
				wg2.Wait()
				os.Unsetenv("GOMAXPROCS")
				for i, tg := range tags {
					if aerr[i] != nil {
						return aerr[i]
					}
					rep.Histories += int64(ares[i].Cases)
					rep.Transitions += int64(ares[i].Steps)
					noteTruncated(rep, "C20 arity sweep", ares[i])
					rep.PerConfig = append(rep.PerConfig, fmt.Sprintf("C20 arity sweep in build tags=%q: histories=%d violations=%d", tg, ares[i].Cases, len(ares[i].Violations)))
					if i > 0 {
						for k := range ares[0].Digests {
							if k < len(ares[i].Digests) && ares[i].Digests[k] != ares[0].Digests[k] {
								rep.Found = append(rep.Found, engine.Found{Scenario: "C20-misuse-arity-" + tg, OpKind: "misuse-arity:" + tg,
									V: drv.Violation{Kind: "build-diff", Msg: fmt.Sprintf("query misuse script gives different outcomes (panicked/returned) in build %q and the default build:\n    default: %s\n    %s: %s", tg, ares[0].Digests[k], tg, ares[i].Digests[k])}})
								break
							}
						}
					}
					for _, v := range ares[i].Violations {
						v.Msg = fmt.Sprintf("[build %q] typed API disagrees with the ID-based semantics in this build: %s", tg, v.Msg)
						rep.Found = append(rep.Found, engine.Found{Scenario: "C20-arity-" + tg, V: v, OpKind: "arity:" + tg + ":" + v.Kind})
					}
				}
			}
			rep.Samples = append(rep.Samples, "history: [New{P} ; Open(q0=f0) ; misuse:Get-before-Next(q0) ; Next(q0) ; Close(q0) ; misuse:Next-after-Close(q0)] traced in 4 builds")
			// compare (digests of processes that were stopped by the deadline cover only a prefix: not comparable)
			seen := map[string]bool{}
			if truncated {
				rep.PerConfig = append(rep.PerConfig, "C20: the wall-clock deadline stopped at least one build's enumeration; digest streams are not compared")
			}
			for i := 1; i < len(tags) && !truncated; i++ {
				if len(res[i].Digests) != len(res[0].Digests) {
					rep.Found = append(rep.Found, engine.Found{Scenario: "C20-builds", OpKind: "tasks",
						V: drv.Violation{Kind: "build-diff", Msg: fmt.Sprintf("build %q enumerates %d subtrees, default build %d", tags[i], len(res[i].Digests), len(res[0].Digests))}})
					continue
				}
				var diff []int
				for k := range res[0].Digests {
					if res[i].Digests[k] != res[0].Digests[k] {
						diff = append(diff, k)
					}
				}
				sort.Ints(diff)
				if len(diff) > 3 {
					rep.PerConfig = append(rep.PerConfig, fmt.Sprintf("C20: build %q differs in %d subtrees; the first 3 are analysed", tags[i], len(diff)))
					diff = diff[:3]
				}
				for _, k := range diff {
					// locate the first differing history of the subtree
					a, err1 := RunSub("C20", "", ts, "task", strconv.Itoa(k))
					b, err2 := RunSub("C20", tags[i], ts, "task", strconv.Itoa(k))
					if err1 != nil || err2 != nil {
						return fmt.Errorf("re-running task %d: %v %v", k, err1, err2)
					}
					j := 0
					for j < len(a.Digests) && j < len(b.Digests) && a.Digests[j] == b.Digests[j] {
						j++
					}
					la, _ := RunSub("C20", "", ts, "hist", strconv.Itoa(k), strconv.Itoa(j))
					lb, _ := RunSub("C20", tags[i], ts, "hist", strconv.Itoa(k), strconv.Itoa(j))
					// first differing line
					what, opk := "", "?"
					for x := 0; la != nil && lb != nil && x < len(la.Digests) && x < len(lb.Digests); x++ {
						if la.Digests[x] != lb.Digests[x] {
							what = fmt.Sprintf("default build: %s\n    build %s: %s", la.Digests[x], tags[i], lb.Digests[x])
							opk = c20Sig(la.Digests[x], lb.Digests[x])
							break
						}
					}
					hist := ""
					if j < len(a.Digests) {
						hist = a.Digests[j]
					}
					sig := tags[i] + "|" + opk
					if seen[sig] {
						continue
					}
					seen[sig] = true
					rep.Found = append(rep.Found, engine.Found{Scenario: "C20-builds", OpKind: sig,
						V:    drv.Violation{Kind: "build-diff", Msg: fmt.Sprintf("builds diverge in subtree %d history %d %s\n    %s", k, j, hist, what)},
						Note: "tags=" + tags[i]})
					if len(seen) > 12 {
						break
					}
				}
			}
			return nil
		}
		return chk
	}
}

// c20Sig classifies a trace divergence by the call at which it occurs.
func c20Sig(a, b string) string {
	cut := func(s string) string {
		s = strings.TrimSpace(s)
		if i := strings.Index(s, "("); i > 0 {
			s = s[:i]
		}
		if strings.HasPrefix(s, "obs:") {
			return "observation"
		}
		return s
	}
	op := cut(a)
	if strings.HasPrefix(op, "Invalid") {
		// misuse code
		if i := strings.Index(a, "method="); i > 0 {
			j := strings.IndexAny(a[i:], " )")
			if j > 0 {
				op = "misuse:" + a[i+7:i+j]
			}
		}
	}
	return op
}

var _ = unsafe.Pointer(nil)
