package props

import (
	"encoding/json"
	"os"
	"testing"

	"verif/mc/drv"
	"verif/mc/engine"
	"verif/mc/model"
)

// TestReplay replays a violation artefact (VERIF_REPLAY=/verif/replays/<file>.json) as a plain
// unit test, without the explorer:
//
//	VERIF_REPLAY=/verif/replays/C04-....json go test ./props -run TestReplay -v
func TestReplay(t *testing.T) {
	path := os.Getenv("VERIF_REPLAY")
	if path == "" {
		t.Skip("set VERIF_REPLAY to a replay file")
	}
	b, err := os.ReadFile(path)
	if err != nil {
		t.Fatal(err)
	}
	var rf struct {
		Property string     `json:"property"`
		Scenario string     `json:"scenario"`
		Cfg      drv.Config `json:"cfg"`
		Ops      []model.Op `json:"ops"`
	}
	if err := json.Unmarshal(b, &rf); err != nil {
		t.Fatal(err)
	}
	build, ok := Registry[rf.Property]
	if !ok {
		t.Fatalf("unknown property %s", rf.Property)
	}
	for _, tier := range []Tier{Quick, Thorough} {
		for _, sc := range build(tier).Scenarios {
			if sc.Name != rf.Scenario {
				continue
			}
			for i, op := range rf.Ops {
				t.Logf("%2d %v", i+1, op)
			}
			if _, v := engine.RunHistory(sc, rf.Cfg, nil, rf.Ops); v != nil {
				t.Fatalf("VIOLATION property=%s: %s", rf.Property, v.Error())
			}
			return
		}
	}
	t.Fatalf("scenario %q not found (special checks replay through `check %s --replay`)", rf.Scenario, rf.Property)
}
