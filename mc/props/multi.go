package props

import (
	"fmt"

	"verif/mc/api"
	"verif/mc/ct"
	"verif/mc/drv"
	"verif/mc/engine"
	"verif/mc/model"
)

// queryOps: open / advance / close queries of the given filters in the model's slots.
func queryOps(m *model.Model, filters []int, qtFor func(f int) [][]model.RelT) []model.Op {
	var ops []model.Op
	free := -1
	for q := range m.Queries {
		if !m.Queries[q].Open && free < 0 {
			free = q
		}
	}
	if free >= 0 {
		for _, f := range filters {
			ops = append(ops, model.Op{K: model.OpOpen, F: f, Q: free})
			if qtFor != nil {
				for _, qt := range qtFor(f) {
					ops = append(ops, model.Op{K: model.OpOpen, F: f, Q: free, QT: qt})
				}
			}
		}
	}
	for q := range m.Queries {
		if m.Queries[q].Open {
			ops = append(ops, model.Op{K: model.OpNext, Q: q}, model.Op{K: model.OpClose, Q: q})
		}
	}
	return ops
}

func regOps(m *model.Model, filters []int) []model.Op {
	var ops []model.Op
	for _, f := range filters {
		if m.Reg[f] {
			ops = append(ops, model.Op{K: model.OpUnregister, F: f})
		} else {
			ops = append(ops, model.Op{K: model.OpRegister, F: f})
		}
	}
	return ops
}

func concat(fs ...func(m *model.Model) []model.Op) func(m *model.Model) []model.Op {
	return func(m *model.Model) []model.Op {
		var out []model.Op
		for _, f := range fs {
			out = append(out, f(m)...)
		}
		return validOnly(m, out)
	}
}

// bigFamily enumerates filters over {P,Q,R1,R2}: with-sets x (no exclusion | one excluded | exclusive)
// x relation constraints {none, zero entity, #0, #1} per relation component, typed where a tuple is
// instantiated (first components as generic parameters, rest via With), plus unsafe variants.
func bigFamily() []model.FilterSpec {
	u := []ct.Comp{ct.P, ct.Q, ct.R1, ct.R2}
	var out []model.FilterSpec
	for mask := 1; mask < 16; mask++ {
		var w []ct.Comp
		for i, c := range u {
			if mask&(1<<i) != 0 {
				w = append(w, c)
			}
		}
		ws := ct.Of(w...)
		var excl []ct.Set
		excl = append(excl, 0)
		for _, c := range u {
			if !ws.Has(c) {
				excl = append(excl, ct.Of(c))
			}
		}
		var relc []ct.Comp
		for _, c := range w {
			if ct.IsRel(c) {
				relc = append(relc, c)
			}
		}
		tchoices := []int{model.NoTarget, model.ZeroTarget, 0, 1}
		var relSets [][]model.RelT
		switch len(relc) {
		case 0:
			relSets = [][]model.RelT{nil}
		case 1:
			for _, t := range tchoices {
				if t == model.NoTarget {
					relSets = append(relSets, nil)
				} else {
					relSets = append(relSets, rel(relc[0], t))
				}
			}
		default:
			for _, t1 := range tchoices {
				for _, t2 := range tchoices {
					var rs []model.RelT
					if t1 != model.NoTarget {
						rs = append(rs, model.RelT{C: relc[0], T: t1})
					}
					if t2 != model.NoTarget {
						rs = append(rs, model.RelT{C: relc[1], T: t2})
					}
					relSets = append(relSets, rs)
				}
			}
		}
		variant := 0
		for _, x := range excl {
			for _, rs := range relSets {
				spec := model.FilterSpec{Without: x, Rels: rs}
				switch variant % 3 {
				case 0: // all as generic params if instantiated, else first as param
					if filterInstantiated(w) {
						spec.Params = w
					} else {
						spec.Params = w[:1]
						spec.With = ct.Of(w[1:]...)
					}
				case 1: // Filter0.With(...)
					spec.With = ws
				case 2: // last component as the single parameter, rest With (rare-component path differs)
					spec.Params = w[len(w)-1:]
					spec.With = ct.Of(w[:len(w)-1]...)
				}
				if variant%5 == 4 {
					spec.Unsafe = true
					spec.Params = w
					spec.With = 0
				}
				variant++
				out = append(out, spec)
			}
		}
		// exclusive
		out = append(out, model.FilterSpec{Params: w[:1], With: ct.Of(w[1:]...), Exclusive: true})
		out = append(out, model.FilterSpec{Params: w, Exclusive: true, Unsafe: true})
	}
	out = append(out, model.FilterSpec{})
	return out
}

func filterInstantiated(cs []ct.Comp) bool {
	k := api.Key(cs)
	for _, t := range api.FilterTuples {
		if api.Key(t) == k {
			return true
		}
	}
	return false
}

func init() {
	one := []api.RelMode{api.RelByIdx}

	Registry["C15"] = func(t Tier) *Check {
		d := 4
		if t == Thorough {
			d = 5
		}
		shr := func(m *model.Model) []model.Op {
			return []model.Op{{K: model.OpShrink}, {K: model.OpShrinkLimit}}
		}
		after := func(x *drv.World, op model.Op) *drv.Violation {
			if (op.K == model.OpShrink || op.K == model.OpShrinkLimit) && !x.M.Locked() {
				return x.CheckShrunk()
			}
			return nil
		}
		qf := func(m *model.Model) []model.Op {
			return append(queryOps(m, []int{0, 1}, nil), regOps(m, []int{0})...)
		}
		var scs []*engine.Scenario
		scs = append(scs, &engine.Scenario{
			Name: "C15-shrink-relations", Cfgs: append(cfgs([]int{1, 2}, []int{0}, one, relUniverse),
				drv.Config{Cap: 8, CapRel: 1, Universe: relUniverse}, drv.Config{Universe: relUniverse}), Filters: relFilters(), Slots: 1,
			Oracle: drv.Oracle{World: true, Typed: true, Family: relFamily(), Filters: true, Lock: true},
			Preludes: append(relPreludes(model.PathMapN), append(append([]model.Op{}, relPreludes(model.PathMapN)[2]...),
				model.Op{K: model.OpReset}, model.Op{K: model.OpShrink},
				model.Op{K: model.OpNew, Path: model.PathMapN, Cs: ct.Of(ct.P)}, model.Op{K: model.OpNew, Path: model.PathMapN, Cs: ct.Of(ct.P)}),
				// a table of an archetype with TWO relation components, seen by a registered filter; its entity can be
				// removed (targets stay alive), the table freed by Shrink and recycled
				[]model.Op{{K: model.OpNew, Path: model.PathMapN, Cs: ct.Of(ct.P)}, {K: model.OpNew, Path: model.PathMapN, Cs: ct.Of(ct.P)}, {K: model.OpNew, Path: model.PathMapN, Cs: ct.Of(ct.P)},
					{K: model.OpNew, Path: model.PathMapN, Cs: ct.Of(ct.R1, ct.R2), T: []model.RelT{{C: ct.R1, T: 0}, {C: ct.R2, T: 1}}},
					{K: model.OpNew, Path: model.PathMapN, Cs: ct.Of(ct.R1, ct.R2), T: []model.RelT{{C: ct.R1, T: 1}, {C: ct.R2, T: 1}}},
					{K: model.OpRegister, F: 0}}),
			Alphabet: concat(relAlphabet(relOpts{path: model.PathMapN, maxAlive: 5, batch: true, two: true, nTargets: 2}), shr, qf),
			Depth:    d, AfterOp: after,
		})
		ob := plainOpts{a: ct.P, b: ct.Q, c: ct.NumComps, path: model.PathMapN, maxAlive: 8, batch: true}
		sc2 := plainScenario("C15-shrink-batches", ob, cfgs([]int{1, 2, 3}, []int{0}, one, []ct.Comp{ct.P, ct.Q, ct.T9}), d,
			drv.Oracle{World: true, Typed: true, Filters: true, Lock: true}, plainPreludes(ct.P, ct.Q, model.PathMapN))
		sc2.Alphabet = concat(plainAlphabet(ob), shr, func(m *model.Model) []model.Op {
			return append(queryOps(m, []int{0}, nil), regOps(m, []int{1})...)
		})
		sc2.AfterOp = after
		scs = append(scs, sc2)
		// large configurations: 36 relation tables (most of them freed by the alphabet's removals), tables of > 64 rows
		for _, sc := range scaleTargets(d-2, drv.Oracle{World: true, Typed: true, Filters: true, Lock: true}) {
			sc.Name = "C15-" + sc.Name
			sc.Alphabet = concat(sc.Alphabet, shr)
			sc.AfterOp = after
			scs = append(scs, sc)
		}
		for _, sc := range scaleRows(d - 2) {
			sc.Name = "C15-" + sc.Name
			sc.Alphabet = concat(sc.Alphabet, shr)
			sc.AfterOp = after
			scs = append(scs, sc)
		}
		return &Check{ID: "C15", Scenarios: scs, Special: clockSweep,
			Rule:   "all histories over the relation and the batch alphabets with Shrink() and repeated Shrink(0) at every position, also while queries are open and with registered filters; oracle: full model comparison (entities, values, relations, filter family, cached filters) after the call and after every later operation, capacity bounds from Stats() after an unbounded Shrink, repeated limited Shrink terminates; non-trivial = >=1 alive entity",
			Assume: []string{"in the main exploration time-limited Shrink is driven with limit 0; the virtual-clock sweep (time overlay) enumerates all clock answer patterns of length 4 (quick) / 6 (thorough) at every state of a depth 2 / 3 exploration"}}
	}

	Registry["C19"] = func(t Tier) *Check {
		d := 4
		if t == Thorough {
			d = 5
		}
		st := func(m *model.Model) []model.Op {
			ops := []model.Op{{K: model.OpStats}}
			for o := range m.Obs {
				if m.ObsReg[o] {
					ops = append(ops, model.Op{K: model.OpUnobserve, O: o})
				} else {
					ops = append(ops, model.Op{K: model.OpObserve, O: o})
				}
			}
			return ops
		}
		statObs := []model.ObsSpec{{Event: model.EvCreateEntity}, {Event: model.EvAddComponents}, {Event: model.EvRemoveRelations}}
		leaf := func(x *drv.World, sc *engine.Scenario, cfg drv.Config, hist []model.Op) *drv.Violation {
			// incremental == from scratch: twin world replays the history without any Stats call
			var h2 []model.Op
			for _, op := range hist {
				if op.K != model.OpStats {
					h2 = append(h2, op)
				}
			}
			sc2 := *sc
			sc2.Leaf = nil
			sc2.AfterOp = nil
			sc2.Oracle = drv.Oracle{}
			y, v := engine.RunHistory(&sc2, cfg, nil, h2)
			if v != nil {
				return nil // reported by the primary run's own oracles
			}
			a, b := x.StatsDigest(), y.StatsDigest()
			if a != b {
				return &drv.Violation{Kind: "stats-incremental", Step: len(hist), Msg: fmt.Sprintf("incrementally updated stats differ from a fresh computation:\n incremental: %s\n fresh:       %s", a, b)}
			}
			return nil
		}
		var scs []*engine.Scenario
		scs = append(scs, &engine.Scenario{
			Name: "C19-stats-relations", Cfgs: cfgs([]int{1, 2}, []int{0}, one, relUniverse), Filters: relFilters(), Slots: 1, Obs: statObs,
			Oracle:   drv.Oracle{Stats: true, Lock: true},
			Preludes: relPreludes(model.PathMapN)[1:],
			Alphabet: concat(relAlphabet(relOpts{path: model.PathMapN, maxAlive: 5, batch: true, two: true, shrink: true, reset: true, nTargets: 2}), st,
				func(m *model.Model) []model.Op { return append(regOps(m, []int{0}), queryOps(m, []int{1}, nil)...) }),
			Depth: d, Leaf: leaf,
		})
		ob := plainOpts{a: ct.P, b: ct.Q, c: ct.NumComps, path: model.PathMapN, maxAlive: 6, batch: true, shrink: true, reset: true}
		sc2 := plainScenario("C19-stats-batches", ob, cfgs([]int{1}, []int{0}, one, []ct.Comp{ct.P, ct.Q, ct.T9}), d,
			drv.Oracle{Stats: true, Lock: true}, plainPreludes(ct.P, ct.Q, model.PathMapN))
		sc2.Oracle.Family = nil
		sc2.Obs = statObs[:2]
		sc2.Alphabet = concat(plainAlphabet(ob), st)
		sc2.Leaf = leaf
		scs = append(scs, sc2)
		scs = append(scs, &engine.Scenario{
			Name: "C19-stats-graph", Cfgs: cfgs([]int{1}, []int{0}, one, []ct.Comp{ct.P, ct.Q, ct.T9}), Slots: 1,
			Oracle:   drv.Oracle{Stats: true, Lock: true},
			Alphabet: concat(graphAlphabet([]ct.Comp{ct.P, ct.Q, ct.T9}, 3), func(m *model.Model) []model.Op { return []model.Op{{K: model.OpStats}} }),
			Depth:    d, Leaf: leaf,
		})
		return &Check{ID: "C19", Scenarios: scs,
			Rule: "all histories over the relation and batch alphabets with Stats() as an ordinary operation at every position; after every history the Stats invariants (entity counts, archetype/table sizes vs model population, capacity and memory products, distinct archetype component sets, filters/observers/locked) and equality of the incrementally updated statistics with those of a twin world that replays the history and calls Stats once; non-trivial = >=1 alive entity"}
	}

	Registry["C03"] = func(t Tier) *Check {
		d := 4
		if t == Thorough {
			d = 5
		}
		fam := bigFamily()
		u := []ct.Comp{ct.P, ct.Q, ct.R1, ct.R2}
		// persistent filters whose fixed targets may die (and whose IDs may be recycled) later
		pers := []model.FilterSpec{
			{Params: []ct.Comp{ct.R1}, Rels: rel(ct.R1, 0)},
			{Params: []ct.Comp{ct.P, ct.R1}, Rels: rel(ct.R1, 1)},
			{Params: []ct.Comp{ct.R1, ct.R2}, Rels: []model.RelT{{C: ct.R1, T: 0}, {C: ct.R2, T: 1}}, Unsafe: true},
			{Params: []ct.Comp{ct.R1}},
			{With: ct.Of(ct.P)},
		}
		mk := func(path model.Path) model.Op { return model.Op{K: model.OpNew, Path: path, Cs: ct.Of(ct.P)} }
		child := func(t int) model.Op {
			return model.Op{K: model.OpNew, Path: model.PathMapN, Cs: ct.Of(ct.P, ct.R1), T: rel(ct.R1, t)}
		}
		oc := func(f int) []model.Op {
			return []model.Op{{K: model.OpOpen, F: f, Q: 0}, {K: model.OpClose, Q: 0}}
		}
		pre := [][]model.Op{
			append(append(append([]model.Op{mk(model.PathMapN), mk(model.PathMapN)}, oc(0)...), oc(1)...), oc(2)...),
			append(append([]model.Op{mk(model.PathMapN), mk(model.PathMapN), child(0), child(1), child(0)}, oc(0)...), oc(1)...),
			{mk(model.PathMapN), mk(model.PathMapN), child(0), {K: model.OpNew, Path: model.PathMapN, Cs: ct.Of(ct.R1, ct.R2), T: []model.RelT{{C: ct.R1, T: 0}, {C: ct.R2, T: 1}}},
				{K: model.OpOpen, F: 2, Q: 0}, {K: model.OpClose, Q: 0}, {K: model.OpAdd, Path: model.PathUnsafe, E: 2, Cs: ct.Of(ct.Q)}},
		}
		alpha := concat(relAlphabet(relOpts{path: model.PathMapN, maxAlive: 6, batch: true, two: true, shrink: true, nTargets: 2}),
			func(m *model.Model) []model.Op {
				var ops []model.Op
				for _, e := range pick2(without(m, ct.Of(ct.Q))) {
					ops = append(ops, model.Op{K: model.OpAdd, Path: model.PathMapN, E: e, Cs: ct.Of(ct.Q)})
				}
				return ops
			})
		sc := &engine.Scenario{
			Name: "C03-queries", Cfgs: cfgs([]int{1}, []int{0, 62}, one, u), Filters: pers, Slots: 1,
			Oracle:   drv.Oracle{World: true, Family: fam, Filters: true, Lock: true},
			Preludes: pre, Alphabet: alpha, Depth: d,
		}
		if t == Thorough {
			sc.Cfgs = cfgs([]int{1, 2}, []int{0}, one, u)
		}
		scs3 := []*engine.Scenario{sc}
		{
			hi := *sc
			hi.Name = "C03-queries/high-ids"
			hi.Cfgs = cfgs([]int{1}, []int{126, 190, 250}, one, u)
			if t == Thorough {
				hi.Cfgs = cfgs([]int{1}, []int{62, 126, 190, 250}, one, u)
			}
			hi.Depth = d - 1
			hi.Preludes = pre[1:]
			scs3 = append(scs3, &hi)
		}
		chk := &Check{ID: "C03", Scenarios: scs3,
			Rule: fmt.Sprintf("world states = all histories of the relation/batch alphabet (tables emptied, freed by Shrink, recycled; targets dying, IDs recycled) from 3 preludes; in every state a family of %d filters (with-sets over {P,Q,R1,R2} x none/one excluded/exclusive x relation constraints {none, zero, #0, #1} given in the filter and per query; typed Filter0/1/2 with With, and UnsafeFilter) plus persistent filters whose targets die is evaluated: visited multiset, once each, Count, EntityAt order, Get pointers address-equal to Unsafe.Get with model values, GetRelation, unlocked afterwards; non-trivial = >=1 alive entity", len(fam))}
		addThreshold(chk, "many-archetypes", manyArchetypesSweep, "threshold sweep: n in {2,...,127,128,129,130,254,255,256,257,300} archetypes that all contain the queried components, one entity each: Count and the visited set of un-cached FilterN, a registered filter and UnsafeFilter, then batch removal over all of them")
		return chk
	}

	Registry["C05"] = func(t Tier) *Check {
		d := 4
		if t == Thorough {
			d = 5
		}
		u := relUniverse
		alpha := concat(relAlphabet(relOpts{path: model.PathMapN, maxAlive: 5, batch: true, reset: true, shrink: true, nTargets: 2}),
			func(m *model.Model) []model.Op {
				return append(regOps(m, []int{0, 2, 3}), queryOps(m, []int{0, 3}, func(f int) [][]model.RelT {
					if f == 0 && m.IsAlive(1) {
						return [][]model.RelT{rel(ct.R1, 1)}
					}
					return nil
				})...)
			})
		sc := &engine.Scenario{
			Name: "C05-cache", Cfgs: cfgs([]int{1}, []int{0}, one, u), Filters: relFilters(), Slots: 2,
			Oracle: drv.Oracle{World: true, Filters: true, Lock: true, Stats: true},
			Preludes: append(relPreludes(model.PathMapN)[1:], []model.Op{
				{K: model.OpNew, Path: model.PathMapN, Cs: ct.Of(ct.P)}, {K: model.OpNew, Path: model.PathMapN, Cs: ct.Of(ct.P, ct.R1), T: rel(ct.R1, 0)},
				{K: model.OpNew, Path: model.PathMapN, Cs: ct.Of(ct.R1), T: rel(ct.R1, 0)},
				{K: model.OpRegister, F: 0}, {K: model.OpRegister, F: 2}, {K: model.OpRegister, F: 3},
			}),
			Alphabet: alpha, Depth: d,
		}
		return &Check{ID: "C05", Scenarios: []*engine.Scenario{sc, scaleFilters(d - 1)},
			Rule: "all histories over the relation alphabet plus Register/Unregister of three filters (plain relation filter, filter with a fixed relation target, exclusive filter) and Open/Next/Close of queries in 2 slots (so registration changes happen while queries of the same and of other filters are open), Shrink and Reset; in every state every created filter (registered or not) is evaluated with no and with per-query targets against the model (multiset, Count, EntityAt), batch selection through RemoveEntities/SetRelationsBatch callbacks, Stats().CachedFilters; non-trivial = >=1 registered filter and >=1 alive entity",
		}
	}

	Registry["C06"] = func(t Tier) *Check {
		d := 3
		if t == Thorough {
			d = 4
		}
		u := []ct.Comp{ct.P, ct.Q, ct.R1, ct.T9, ct.R2, ct.S}
		filters := []model.FilterSpec{
			{Params: []ct.Comp{ct.P}},                                      // f0
			{Params: []ct.Comp{ct.P, ct.Q}},                                // f1
			{Params: []ct.Comp{ct.P}, Without: ct.Of(ct.Q)},                // f2
			{Params: []ct.Comp{ct.R1}},                                     // f3
			{Params: []ct.Comp{ct.P}, Without: ct.Of(ct.R1)},               // f4
			{Params: []ct.Comp{ct.P}, Without: ct.Of(ct.Q) | ct.Of(ct.R1)}, // f5
			{Params: []ct.Comp{ct.R1, ct.R2}, Rels: rel(ct.R1, 0)},         // f6: fixed target, second relation open
			{Params: []ct.Comp{ct.S}},                                      // f7
			{Params: []ct.Comp{ct.S}, Without: ct.Of(ct.Q)},                // f8
		}
		alpha := func(reg bool) func(m *model.Model) []model.Op {
			return func(m *model.Model) []model.Op {
				var ops []model.Op
				tg := targets(m, 2)
				if m.NumAlive() <= 5 {
					ops = append(ops,
						model.Op{K: model.OpNew, Path: model.PathMapN, Cs: ct.Of(ct.P)},
						model.Op{K: model.OpNew, Path: model.PathMapN, Cs: ct.Of(ct.P, ct.Q)},
						model.Op{K: model.OpNewBatch, Path: model.PathMapN, Cs: ct.Of(ct.P), N: 2, Init: model.InitFn, Fn: true},
						model.Op{K: model.OpNewBatch, Path: model.PathMapN, Cs: ct.Of(ct.P, ct.Q), N: 2},
						model.Op{K: model.OpNewEntities, N: 2, Fn: true},
					)
					for _, t := range tg[1:] {
						ops = append(ops, model.Op{K: model.OpNewBatch, Path: model.PathMapN, Cs: ct.Of(ct.P, ct.R1), N: 2, T: rel(ct.R1, t), Init: model.InitFn, Fn: true})
					}
				}
				ops = append(ops,
					model.Op{K: model.OpAddBatch, Path: model.PathMapN, F: 2, Cs: ct.Of(ct.Q), Init: model.InitFn, Fn: true},
					model.Op{K: model.OpAddBatch, Path: model.PathMap, F: 2, Cs: ct.Of(ct.Q)},
					model.Op{K: model.OpAddBatch, Path: model.PathExchange, F: 2, Cs: ct.Of(ct.Q), Init: model.InitNil},
					model.Op{K: model.OpRemoveBatch, Path: model.PathMapN, F: 1, Rm: ct.Of(ct.Q), Fn: true},
					model.Op{K: model.OpRemoveBatch, Path: model.PathExchange, F: 1, Rm: ct.Of(ct.Q)},
					model.Op{K: model.OpExchangeBatch, F: 1, Cs: ct.Of(ct.T9), Rm: ct.Of(ct.Q), Init: model.InitFn, Fn: true},
					model.Op{K: model.OpRemoveEntities, F: 1, Fn: true},
					model.Op{K: model.OpRemoveEntities, F: 5},
				)
				for _, t := range tg[1:] {
					ops = append(ops,
						model.Op{K: model.OpAddBatch, Path: model.PathMapN, F: 4, Cs: ct.Of(ct.R1), T: rel(ct.R1, t), Fn: true},
						model.Op{K: model.OpSetRelBatch, Path: model.PathMapN, F: 3, T: rel(ct.R1, t), Fn: true},
						model.Op{K: model.OpSetRelBatch, Path: model.PathMap, F: 3, QT: rel(ct.R1, tg[1]), T: rel(ct.R1, t)},
						model.Op{K: model.OpRemoveEntities, F: 3, QT: rel(ct.R1, t), Fn: true},
					)
				}
				ops = append(ops, model.Op{K: model.OpExchangeBatch, F: 3, Cs: ct.Of(ct.Q), Rm: ct.Of(ct.R1), Fn: true})
				// two relation components: registered filter with a fixed target plus a per-batch target
				if len(tg) >= 3 && m.NumAlive() <= 6 {
					for _, a := range tg[1:] {
						for _, b := range tg[1:] {
							ops = append(ops, model.Op{K: model.OpNew, Path: model.PathMapN, Cs: ct.Of(ct.R1, ct.R2), T: []model.RelT{{C: ct.R1, T: a}, {C: ct.R2, T: b}}})
						}
					}
				}
				for _, t := range tg[1:] {
					ops = append(ops,
						model.Op{K: model.OpRemoveEntities, F: 6, QT: rel(ct.R2, t), Fn: true},
						model.Op{K: model.OpSetRelBatch, Path: model.PathMapN, F: 6, QT: rel(ct.R2, t), T: rel(ct.R2, model.ZeroTarget), Fn: true},
					)
				}
				ops = append(ops, model.Op{K: model.OpRemoveEntities, F: 6})
				// pointer-bearing component moved in batches into tables that already hold rows
				if m.NumAlive() <= 6 {
					ops = append(ops,
						model.Op{K: model.OpNew, Path: model.PathMapN, Cs: ct.Of(ct.S)},
						model.Op{K: model.OpNewBatch, Path: model.PathMapN, Cs: ct.Of(ct.S), N: 3, Init: model.InitFn, Fn: true},
						model.Op{K: model.OpNew, Path: model.PathMapN, Cs: ct.Of(ct.Q, ct.S)},
					)
				}
				ops = append(ops,
					model.Op{K: model.OpAddBatch, Path: model.PathMapN, F: 8, Cs: ct.Of(ct.Q), Init: model.InitFn, Fn: true},
					model.Op{K: model.OpRemoveBatch, Path: model.PathMapN, F: 7, Rm: ct.Of(ct.S)},
					model.Op{K: model.OpExchangeBatch, F: 8, Cs: ct.Of(ct.T9), Rm: ct.Of(ct.S)},
				)
				// single moves to diversify the tables
				for _, e := range pick2(with(m, ct.Of(ct.P))) {
					if !m.Ents[e].Comps.Has(ct.Q) {
						ops = append(ops, model.Op{K: model.OpAdd, Path: model.PathMapN, E: e, Cs: ct.Of(ct.Q)})
					}
					ops = append(ops, model.Op{K: model.OpRemoveEntity, E: e})
				}
				if reg {
					ops = append(ops, regOps(m, []int{1, 2, 3, 6})...)
				}
				return validOnly(m, ops)
			}
		}
		mkP := model.Op{K: model.OpNew, Path: model.PathMapN, Cs: ct.Of(ct.P)}
		mkPQ := model.Op{K: model.OpNew, Path: model.PathMapN, Cs: ct.Of(ct.P, ct.Q)}
		pre := [][]model.Op{
			nil,
			{mkP, mkP, mkPQ, {K: model.OpNew, Path: model.PathMapN, Cs: ct.Of(ct.P, ct.R1), T: rel(ct.R1, 0)}, {K: model.OpNew, Path: model.PathMapN, Cs: ct.Of(ct.P, ct.R1), T: rel(ct.R1, 1)}},
			{mkP, mkP, mkPQ, {K: model.OpRegister, F: 1}, {K: model.OpRegister, F: 2}, {K: model.OpRegister, F: 3}, {K: model.OpNew, Path: model.PathMapN, Cs: ct.Of(ct.P, ct.R1), T: rel(ct.R1, 0)}},
			{mkP, mkP, {K: model.OpRegister, F: 6},
				{K: model.OpNew, Path: model.PathMapN, Cs: ct.Of(ct.R1, ct.R2), T: []model.RelT{{C: ct.R1, T: 0}, {C: ct.R2, T: 1}}},
				{K: model.OpNew, Path: model.PathMapN, Cs: ct.Of(ct.R1, ct.R2), T: []model.RelT{{C: ct.R1, T: 0}, {C: ct.R2, T: 0}}},
				{K: model.OpNew, Path: model.PathMapN, Cs: ct.Of(ct.R1, ct.R2), T: []model.RelT{{C: ct.R1, T: 1}, {C: ct.R2, T: 1}}},
				{K: model.OpNew, Path: model.PathMapN, Cs: ct.Of(ct.S)}, {K: model.OpNew, Path: model.PathMapN, Cs: ct.Of(ct.Q, ct.S)}},
		}
		sc := &engine.Scenario{
			Name: "C06-batch", Cfgs: autoPad(cfgs([]int{1, 2}, []int{0}, one, u), 1), Filters: filters, Slots: 1,
			Oracle:   drv.Oracle{World: true, Typed: true, Filters: true, Lock: true},
			Preludes: pre, Alphabet: alpha(true), Depth: d,
		}

		chk := &Check{ID: "C06", Scenarios: []*engine.Scenario{sc},
			Rule: "all histories over every batch operation (NewBatch/NewBatchFn, NewEntities, AddBatch via MapN/Map/ExchangeN with value / callback / nil callback, RemoveBatch, ExchangeBatch, SetRelationsBatch, RemoveEntities; cached and uncached batch filters, with and without per-batch targets) mixed with single moves, from 3 preludes; oracle: callback exactly once per model-selected entity with that entity's handle, unique values written through the callback pointers are read back from that entity, resulting world equals the model's fold of the single-entity operation, unselected entities untouched; non-trivial = >=1 alive entity"}
		addThreshold(chk, "many-tables", manyTargetsSweep, "threshold sweep: n in {2,15..17,31..34,64,65,255..258} relation targets with one child table each, registered and unregistered filters: AddBatchFn, RemoveBatch, SetRelationsBatch and RemoveEntities over all tables at once (callback counts, values, targets, filter counts after every step)")
		return chk
	}
}
