//go:build !verif_time

package props

// TimeSeam tells whether this build has the virtual clock inside package ecs.
const TimeSeam = false

func timeReset(script []bool, def bool) {}
func timeCalls() int                    { return 0 }
