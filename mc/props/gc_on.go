//go:build verif_gc

package props

import "github.com/mlange-42/ark/vgc"

// GCSeam tells whether this build has GC points inside package ecs.
const GCSeam = true

func gcReset(at map[int]bool) { vgc.Reset(at) }
func gcCalls() int            { return vgc.Calls }
func gcSites() int            { return len(vgc.Sites) }
