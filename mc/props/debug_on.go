//go:build ark_debug

package props

// BuildDebug tells whether the harness was built with the ark_debug tag.
const BuildDebug = true
