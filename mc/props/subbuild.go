package props

import (
	"bytes"
	"encoding/json"
	"fmt"
	"os"
	"os/exec"
	"strconv"
	"strings"
	"time"

	"verif/mc/drv"
	"verif/mc/engine"
)

// SubResult is what a sub-build prints for `check --sub <id>`.
type SubResult struct {
	Tags       string          `json:"tags"`
	Cases      int             `json:"cases"`
	Steps      int             `json:"steps"`
	Violations []drv.Violation `json:"violations"`
	Digests    []string        `json:"digests,omitempty"`
	Points     int             `json:"points,omitempty"`
	Truncated  bool            `json:"truncated,omitempty"` // the sub mode stopped at the wall-clock deadline
}

// SubDeadline is the wall-clock deadline of sub modes (env VERIF_DEADLINE, unix seconds; 0: none).
var SubDeadline = func() int64 {
	v, _ := strconv.ParseInt(os.Getenv("VERIF_DEADLINE"), 10, 64)
	return v
}()

// pastDeadline reports whether a sub mode should stop.
func pastDeadline() bool { return SubDeadline != 0 && time.Now().Unix() > SubDeadline }

// SetSubDeadline sets the deadline handed to sub processes (called by the CLI).
func SetSubDeadline(t time.Time) { os.Setenv("VERIF_DEADLINE", strconv.FormatInt(t.Unix(), 10)) }

// SubDeadlineTime returns the deadline currently handed to sub processes (zero: none).
func SubDeadlineTime() time.Time {
	if v, err := strconv.ParseInt(os.Getenv("VERIF_DEADLINE"), 10, 64); err == nil && v > 0 {
		return time.Unix(v, 0)
	}
	return time.Time{}
}

func anyTruncated(rs ...*SubResult) bool {
	for _, r := range rs {
		if r != nil && r.Truncated {
			return true
		}
	}
	return false
}

// noteTruncated marks the report as not exhaustive if any sub result was cut short.
func noteTruncated(rep *engine.Report, what string, rs ...*SubResult) {
	for _, r := range rs {
		if r != nil && r.Truncated {
			rep.Exhaustive = false
			rep.PerConfig = append(rep.PerConfig, what+": sub mode stopped at the wall-clock deadline (partial)")
			return
		}
	}
}

// SubModes maps property id -> body executed inside a differently tagged build.
var SubModes = map[string]func(args []string) *SubResult{}

// extraOverlay is an overlay (produced by the rewriter, already merged with VERIF_OVERLAY)
// to use for tagged sub-builds; keyed by tag string.
var extraOverlay = map[string]string{}

// BuildTagged builds the check binary with the given build tags (comma separated) and returns its path.
func BuildTagged(tags string) (string, error) {
	name := "check"
	if tags != "" {
		name += "_" + strings.ReplaceAll(tags, ",", "_")
	}
	out := Root() + "/.work/bin/" + name
	args := []string{"build", "-tags", tags}
	if ov := os.Getenv("VERIF_OVERLAY"); ov != "" {
		out += "_ov"
	}
	if ov, ok := extraOverlay[tags]; ok {
		args = append(args, "-overlay", ov)
	} else if ov := os.Getenv("VERIF_OVERLAY"); ov != "" {
		// mutation testing: build against a patched copy of the sources
		args = append(args, "-overlay", ov)
	}
	args = append(args, "-o", out, "./cmd/check")
	cmd := exec.Command("go", args...)
	cmd.Dir = Root() + "/mc"
	cmd.Env = append(os.Environ(), "GOFLAGS=-mod=mod", "GOPROXY=off")
	if b, err := cmd.CombinedOutput(); err != nil {
		return "", fmt.Errorf("building with tags %q failed: %v\n%s", tags, err, b)
	}
	return out, nil
}

// RunSubPrebuilt is RunSub without the build step (the binary was built by BuildTagged before).
func RunSubPrebuilt(id, tags string, args ...string) (*SubResult, error) {
	name := "check"
	if tags != "" {
		name += "_" + strings.ReplaceAll(tags, ",", "_")
	}
	bin := Root() + "/.work/bin/" + name
	if os.Getenv("VERIF_OVERLAY") != "" {
		bin += "_ov"
	}
	return runSubBin(bin, id, tags, args...)
}

// RunSub runs `check --sub id args...` in the build with the given tags.
func RunSub(id, tags string, args ...string) (*SubResult, error) {
	bin, err := BuildTagged(tags)
	if err != nil {
		return nil, err
	}
	return runSubBin(bin, id, tags, args...)
}

func runSubBin(bin, id, tags string, args ...string) (*SubResult, error) {
	cmd := exec.Command(bin, append([]string{"--sub", id}, args...)...)
	var stdout, stderr bytes.Buffer
	cmd.Stdout, cmd.Stderr = &stdout, &stderr
	if err := cmd.Run(); err != nil {
		se := stderr.String()
		if strings.Contains(se, "fatal error") && strings.Contains(se, "mlange-42/ark/ecs") {
			// the implementation killed the process: report it as a finding of this sub mode
			i := strings.Index(se, "fatal error")
			lines := strings.Split(se[i:], "\n")
			if len(lines) > 16 {
				lines = lines[:16]
			}
			return &SubResult{Tags: tags, Violations: []drv.Violation{{Kind: "crash", OpKind: "crash",
				Msg: fmt.Sprintf("sub mode %s %v (build tags %q) was killed by a Go fatal error inside package ecs:\n%s", id, args, tags, strings.Join(lines, "\n"))}}}, nil
		}
		return nil, fmt.Errorf("sub-build %q run failed: %v\n%s", tags, err, se)
	}
	var r SubResult
	if err := json.Unmarshal(stdout.Bytes(), &r); err != nil {
		return nil, fmt.Errorf("sub-build %q output not understood: %v\n%s", tags, err, stdout.String())
	}
	return &r, nil
}

// subBuildSweep runs the property's sub mode in another build and merges findings.
func subBuildSweep(id, tags string, rep *engine.Report) error {
	r, err := RunSub(id, tags)
	if err != nil {
		return err
	}
	rep.Histories += int64(r.Cases)
	rep.Transitions += int64(r.Steps)
	rep.States += int64(r.Cases)
	rep.NonTrivial += int64(r.Cases)
	rep.PerConfig = append(rep.PerConfig, fmt.Sprintf("%s sub-build tags=%s: cases=%d steps=%d violations=%d", id, tags, r.Cases, r.Steps, len(r.Violations)))
	for _, v := range r.Violations {
		v.Msg = "[build " + tags + "] " + v.Msg
		rep.Found = append(rep.Found, engine.Found{Scenario: id + "-sub-" + tags, V: v, OpKind: "build:" + tags})
	}
	return nil
}

func init() {
	SubModes["C18"] = func(args []string) *SubResult {
		cases, steps, found := RegistrySweep()
		c2, s2, f2 := ResourceSweep()
		cases, steps, found = cases+c2, steps+s2, append(found, f2...)
		r := &SubResult{Cases: cases, Steps: steps}
		for _, v := range found {
			r.Violations = append(r.Violations, *v)
		}
		return r
	}
}
