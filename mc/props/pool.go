package props

import (
	"verif/mc/api"
	"verif/mc/ct"
	"verif/mc/drv"
	"verif/mc/engine"
	"verif/mc/model"
)

// poolAlphabet is S6 of DESIGN appendix B: every creation and removal form, on every alive entity.
func poolAlphabet(maxAlive int, reset bool) func(m *model.Model) []model.Op {
	return func(m *model.Model) []model.Op {
		var ops []model.Op
		al := m.Alive()
		if len(al) < maxAlive {
			ops = append(ops, model.Op{K: model.OpNewPlain})
			ops = append(ops, model.Op{K: model.OpNew, Path: model.PathMap, Cs: ct.Of(ct.P)})
			if len(al)+2 <= maxAlive {
				ops = append(ops, model.Op{K: model.OpNewEntities, N: 2, Fn: true})
				ops = append(ops, model.Op{K: model.OpNewEntities, N: 2})
				ops = append(ops, model.Op{K: model.OpNewBatch, Path: model.PathMapN, Cs: ct.Of(ct.P), N: 2})
			}
			for _, e := range al {
				ops = append(ops, model.Op{K: model.OpCopy, E: e})
			}
		}
		for _, e := range al {
			ops = append(ops, model.Op{K: model.OpRemoveEntity, E: e})
		}
		ops = append(ops, model.Op{K: model.OpRemoveEntities, F: 0})
		ops = append(ops, model.Op{K: model.OpRemoveEntities, F: 1, Fn: true})
		if reset {
			ops = append(ops, model.Op{K: model.OpReset})
		}
		return validOnly(m, ops)
	}
}

// poolTargetAlphabet: the pool alphabet over a world in which entities are relation targets, so that single and
// batch removal go through the target clean-up path (the removed handle must die there too).
func poolTargetAlphabet(maxAlive int) func(m *model.Model) []model.Op {
	return func(m *model.Model) []model.Op {
		var ops []model.Op
		al := m.Alive()
		if len(al) < maxAlive {
			ops = append(ops, model.Op{K: model.OpNew, Path: model.PathMapN, Cs: ct.Of(ct.P)})
			for _, t := range targets(m, 2) {
				ops = append(ops, model.Op{K: model.OpNew, Path: model.PathMapN, Cs: ct.Of(ct.R1), T: rel(ct.R1, t)})
			}
			for _, e := range pick2(al) {
				ops = append(ops, model.Op{K: model.OpCopy, E: e})
			}
		}
		for _, e := range al {
			ops = append(ops, model.Op{K: model.OpRemoveEntity, E: e})
		}
		ops = append(ops, model.Op{K: model.OpRemoveEntities, F: 0})
		ops = append(ops, model.Op{K: model.OpRemoveEntities, F: 1, Fn: true})
		ops = append(ops, model.Op{K: model.OpRemoveEntities, F: 2})
		ops = append(ops, model.Op{K: model.OpReset})
		return validOnly(m, ops)
	}
}

func init() {
	Registry["C02"] = func(t Tier) *Check {
		d := 7
		if t == Thorough {
			d = 8
		}
		u := []ct.Comp{ct.P}
		sc := &engine.Scenario{
			Name:    "C02-pool",
			Cfgs:    cfgs([]int{1, 2}, []int{0}, []api.RelMode{api.RelByIdx}, u),
			Filters: []model.FilterSpec{{}, {Params: []ct.Comp{ct.P}}},
			Slots:   1,
			Oracle:  drv.Oracle{World: true, Pool: true, Lock: true},
			Preludes: [][]model.Op{nil, {
				{K: model.OpNewPlain}, {K: model.OpNewPlain}, {K: model.OpNewPlain}, {K: model.OpRemoveEntity, E: 1}, {K: model.OpRemoveEntity, E: 0},
			}},
			Alphabet: poolAlphabet(4, true),
			Depth:    d,
		}
		ur := []ct.Comp{ct.P, ct.R1}
		scT := &engine.Scenario{
			Name:    "C02-pool-targets",
			Cfgs:    cfgs([]int{1, 2}, []int{0}, []api.RelMode{api.RelByIdx}, ur),
			Filters: []model.FilterSpec{{}, {Params: []ct.Comp{ct.P}}, {Params: []ct.Comp{ct.R1}}},
			Slots:   1,
			Oracle:  drv.Oracle{World: true, Pool: true, Lock: true},
			Preludes: [][]model.Op{nil, {
				{K: model.OpNew, Path: model.PathMapN, Cs: ct.Of(ct.P)}, {K: model.OpNew, Path: model.PathMapN, Cs: ct.Of(ct.P)},
				{K: model.OpNew, Path: model.PathMapN, Cs: ct.Of(ct.R1), T: rel(ct.R1, 0)},
				{K: model.OpNew, Path: model.PathMapN, Cs: ct.Of(ct.R1), T: rel(ct.R1, 1)},
			}},
			Alphabet: poolTargetAlphabet(5),
			Depth:    d - 2,
		}
		// dump/load is part of C02's quantifier: the C17 leaf (load into new / reset / JSON-decoded worlds, liveness of
		// every handle, identical creation sequences) at every node of a shallower pool exploration
		scD := &engine.Scenario{
			Name: "C02-pool-dumpload", Cfgs: sc.Cfgs, Filters: sc.Filters, Slots: 1, Oracle: drv.Oracle{Pool: true},
			Preludes: sc.Preludes, Alphabet: poolAlphabet(4, true), Depth: d - 2, Leaf: dumpLoadLeaf,
		}
		return &Check{ID: "C02", Scenarios: []*engine.Scenario{sc, scT, scD, scaleRecycle(d - 3)},
			Rule: "C02-pool-targets: the same over {P, R1} where entities are relation targets (creation with target zero / first two alive, copy, single removal, RemoveEntities by all / P / R1, Reset; <=5 alive); C02-pool-dumpload: DumpEntities/LoadEntities at every node (oracle of C17); C02-pool: all histories over {NewEntity, NewEntities(2) with/without callback, Map.NewEntity, NewBatch(2), CopyEntity(i), RemoveEntity(i) for every alive i, RemoveEntities(all / by component), Reset} with <=4 alive entities; after every history: handles pairwise distinct since the last Reset, Alive(h) for every handle ever issued, Stats().Entities, Filter0 count; distinct = distinct model states (alive/dead pattern + components); non-trivial = >=1 alive entity"}
	}
}
