package props

import (
	"fmt"
	"os"
	"sort"
	"strconv"
	"sync"
	"time"

	"verif/mc/api"
	"verif/mc/ct"
	"verif/mc/drv"
	"verif/mc/engine"
	"verif/mc/model"
)

// ---------------------------------------------------------------- C15 convergence under a virtual clock
//
// In a binary built with the time overlay (time.Now/Since inside package ecs answer from a
// script) every node of a shrink-relevant exploration is followed by: for EVERY pattern of clock
// answers ("limit exceeded" / "not yet") of length L, repeated World.Shrink(1ns) until it reports no
// remaining work; oracle: terminates within 2*tables+2 calls, observation equals the model, and the
// capacities equal those reached by ONE unbounded Shrink on a replay of the same history.

func capacityDigest(x *drv.World) string {
	st := x.W.Stats()
	var parts []string
	for i := range st.Archetypes {
		a := &st.Archetypes[i]
		var caps []int
		for _, t := range a.Tables {
			caps = append(caps, t.Capacity*1000+t.Size)
		}
		sort.Ints(caps)
		parts = append(parts, fmt.Sprintf("%v:%d/%d/free%d:%v", a.ComponentIDs, a.Size, a.Capacity, a.FreeTables, caps))
	}
	sort.Strings(parts)
	return fmt.Sprint(parts)
}

func clockScenario(depth int) *engine.Scenario {
	one := []api.RelMode{api.RelByIdx}
	extra := func(m *model.Model) []model.Op {
		var ops []model.Op
		if m.NumAlive() <= 8 {
			ops = append(ops,
				model.Op{K: model.OpNewBatch, Path: model.PathMapN, Cs: ct.Of(ct.P), N: 3},
				model.Op{K: model.OpNewBatch, Path: model.PathMapN, Cs: ct.Of(ct.P, ct.Q), N: 5, Init: model.InitFn, Fn: true},
			)
			if m.IsAlive(0) {
				ops = append(ops, model.Op{K: model.OpNewBatch, Path: model.PathMapN, Cs: ct.Of(ct.P, ct.R1), N: 3, T: rel(ct.R1, 0)})
			}
		}
		ops = append(ops, model.Op{K: model.OpRemoveEntities, F: 1})
		return ops
	}
	return &engine.Scenario{
		Name: "C15-clock", Cfgs: append(cfgs([]int{1}, []int{0}, one, relUniverse), drv.Config{Cap: 4, CapRel: 1, Universe: relUniverse}),
		Filters: relFilters(), Slots: 1,
		Oracle:   drv.Oracle{World: true, Filters: true, Lock: true},
		Preludes: relPreludes(model.PathMapN)[1:4],
		Alphabet: concat(relAlphabet(relOpts{path: model.PathMapN, maxAlive: 6, batch: true, two: true, nTargets: 2}), extra),
		Depth:    depth,
	}
}

func init() {
	SubModes["C15clock"] = func(args []string) *SubResult {
		depth, L := 2, 4
		if len(args) > 0 && args[0] == "thorough" {
			depth, L = 3, 6
		}
		shard, nshard := 0, 1
		if len(args) >= 3 {
			shard, _ = strconv.Atoi(args[1])
			nshard, _ = strconv.Atoi(args[2])
		}
		sc := clockScenario(depth)
		r := &SubResult{}
		addV := func(v *drv.Violation) {
			if len(r.Violations) < 20 {
				r.Violations = append(r.Violations, *v)
			}
		}
		task := 0
		for _, cfg := range sc.Cfgs {
			for _, pre := range sc.Preludes {
				var dfs func(hist []model.Op, lvl int)
				dfs = func(hist []model.Op, lvl int) {
					if lvl == 1 {
						task++
						if task%nshard != shard {
							return
						}
					}
					if pastDeadline() {
						r.Truncated = true
						return
					}
					timeReset(nil, false)
					x, v := engine.RunHistory(sc, cfg, pre, hist)
					if v != nil {
						return // reported by the C15 main exploration
					}
					r.Cases++
					succ := sc.Alphabet(x.M)
					// reference: one unbounded Shrink
					ref, _ := engine.RunHistory(sc, cfg, pre, hist)
					timeReset(nil, false)
					ref.W.Shrink()
					want := capacityDigest(ref)
					tables := 0
					for _, a := range ref.W.Stats().Archetypes {
						tables += len(a.Tables) + a.FreeTables
					}
					for p := 0; p < 1<<L; p++ {
						script := make([]bool, L)
						for i := range script {
							script[i] = p&(1<<i) != 0
						}
						y, _ := engine.RunHistory(sc, cfg, pre, hist)
						timeReset(script, false)
						calls := 0
						for y.W.Shrink(time.Nanosecond) {
							calls++
							if calls > 2*tables+2 {
								addV(&drv.Violation{Kind: "shrink-converge", Step: len(hist), Msg: fmt.Sprintf("repeated Shrink(1ns) with clock answers %v still reports remaining work after %d calls (%d tables); cfg{%v} prelude=%v history=%v", script, calls, tables, cfg, pre, hist)})
								break
							}
						}
						r.Steps++
						r.Points += timeCalls()
						timeReset(nil, false)
						if got := capacityDigest(y); got != want {
							addV(&drv.Violation{Kind: "shrink-converge", Step: len(hist), Msg: fmt.Sprintf("after repeated Shrink(1ns) with clock answers %v capacities differ from one unbounded Shrink:\n limited:   %s\n unbounded: %s\n cfg{%v} prelude=%v history=%v", script, got, want, cfg, pre, hist)})
						}
						if v := y.Observe(); v != nil {
							v.Kind = "shrink-converge"
							v.Msg = fmt.Sprintf("after repeated Shrink(1ns) with clock answers %v: %s; cfg{%v} prelude=%v history=%v", script, v.Msg, cfg, pre, hist)
							addV(v)
						}
						if v := y.CheckShrunk(); v != nil {
							v.Msg = fmt.Sprintf("after repeated Shrink(1ns) with clock answers %v: %s; cfg{%v} prelude=%v history=%v", script, v.Msg, cfg, pre, hist)
							addV(v)
						}
					}
					if len(hist) >= sc.Depth {
						return
					}
					for _, op := range succ {
						dfs(append(hist, op), lvl+1)
					}
				}
				dfs(nil, 0)
			}
		}
		return r
	}
}

// clockSweep runs the C15clock sub mode in the time-overlay build, sharded over 16 processes.
func clockSweep(tier Tier, rep *engine.Report) error {
	ts := "quick"
	if tier == Thorough {
		ts = "thorough"
	}
	ov, rw, err := BuildOverlay("time", "time")
	if err != nil {
		return err
	}
	extraOverlay["verif_time"] = ov
	if _, err := BuildTagged("verif_time"); err != nil {
		return err
	}
	os.Setenv("GOMAXPROCS", "1")
	defer os.Unsetenv("GOMAXPROCS")
	const shards = 16
	res := make([]*SubResult, shards)
	errs := make([]error, shards)
	var wg sync.WaitGroup
	for s := 0; s < shards; s++ {
		wg.Add(1)
		go func(s int) {
			defer wg.Done()
			res[s], errs[s] = RunSubPrebuilt("C15clock", "verif_time", ts, strconv.Itoa(s), strconv.Itoa(shards))
		}(s)
	}
	wg.Wait()
	noteTruncated(rep, "C15 clock sweep", res...)
	cases, runs, pts := 0, 0, 0
	for s, e := range errs {
		if e != nil {
			return e
		}
		cases += res[s].Cases
		runs += res[s].Steps
		pts += res[s].Points
		for _, v := range res[s].Violations {
			rep.Found = append(rep.Found, engine.Found{Scenario: "C15-clock", V: v, OpKind: "clock"})
		}
	}
	rep.Histories += int64(runs)
	rep.Transitions += int64(runs * 6)
	rep.PerConfig = append(rep.PerConfig, fmt.Sprintf("C15 virtual clock (%v): states=%d, limited-Shrink executions (one per clock answer pattern)=%d, clock queries answered=%d", rw, cases, runs, pts))
	return nil
}
