//go:build verif_time

package props

import "github.com/mlange-42/ark/vtime"

// TimeSeam tells whether this build has the virtual clock inside package ecs.
const TimeSeam = true

func timeReset(script []bool, def bool) { vtime.Reset(script, def) }
func timeCalls() int                    { return vtime.Calls }
