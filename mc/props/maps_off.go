//go:build !verif_maps

package props

// MapSeam tells whether this build iterates maps in explorer-chosen order.
const MapSeam = false

func mapReset(ch []int)  {}
func mapLog() []int      { return nil }
func mapSites() []string { return nil }
