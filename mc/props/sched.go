package props

import (
	"bytes"
	"encoding/json"
	"fmt"
	"os"
	"os/exec"
	"strings"
	"syscall"
	"time"

	"verif/mc/drv"
	"verif/mc/engine"
)

// BuildOverlay runs the rewriter for the given modes and returns the overlay file.
func BuildOverlay(name string, modes ...string) (string, map[string]any, error) {
	dir := Root() + "/.work/ov/" + name
	if os.Getenv("VERIF_OVERLAY") != "" {
		dir += "_mut"
	}
	os.MkdirAll(dir, 0o755)
	args := append([]string{"run", "./cmd/rewrite", "-out", dir}, modes...)
	cmd := exec.Command("go", args...)
	cmd.Dir = Root() + "/mc"
	cmd.Env = append(os.Environ(), "GOFLAGS=-mod=mod", "GOPROXY=off")
	var out, errb bytes.Buffer
	cmd.Stdout, cmd.Stderr = &out, &errb
	if err := cmd.Run(); err != nil {
		return "", nil, fmt.Errorf("rewrite %v failed: %v\n%s", modes, err, errb.String())
	}
	rep := map[string]any{}
	json.Unmarshal(out.Bytes(), &rep)
	return dir + "/ov.json", rep, nil
}

// BuildWith builds a package of the harness module with an overlay, tags and extra flags.
func BuildWith(out, pkg, overlay, tags string, extra ...string) error {
	args := []string{"build"}
	args = append(args, extra...)
	if tags != "" {
		args = append(args, "-tags", tags)
	}
	if overlay != "" {
		args = append(args, "-overlay", overlay)
	}
	args = append(args, "-o", out, pkg)
	cmd := exec.Command("go", args...)
	cmd.Dir = Root() + "/mc"
	cmd.Env = append(os.Environ(), "GOFLAGS=-mod=mod", "GOPROXY=off")
	if b, err := cmd.CombinedOutput(); err != nil {
		return fmt.Errorf("go %v failed: %v\n%s", args, err, b)
	}
	return nil
}

type c13Stats struct {
	Scenario  string `json:"scenario"`
	Schedules int    `json:"schedules"`
	Points    int    `json:"points"`
	MaxPoints int    `json:"max_points"`
	Bound     int    `json:"preemption_bound"`
	Unbounded bool   `json:"unbounded"`
	Violation string `json:"violation"`
	Schedule  string `json:"schedule"`
	Distinct  int    `json:"distinct_thread_orders"`
	Truncated bool   `json:"truncated"`
}

type c13Run struct {
	st       c13Stats
	exit     int
	lastSch  string
	raceText string
	timedOut bool
}

func runC13Worker(bin string, timeout time.Duration, args ...string) c13Run {
	cmd := exec.Command(bin, args...)
	cmd.SysProcAttr = &syscall.SysProcAttr{Pdeathsig: syscall.SIGKILL}
	cmd.Env = append(os.Environ(), "GORACE=halt_on_error=1 exitcode=66")
	var out, errb bytes.Buffer
	cmd.Stdout, cmd.Stderr = &out, &errb
	done := make(chan error, 1)
	cmd.Start()
	go func() { done <- cmd.Wait() }()
	var r c13Run
	select {
	case <-done:
	case <-time.After(timeout):
		cmd.Process.Kill()
		<-done
		r.timedOut = true
	}
	r.exit = cmd.ProcessState.ExitCode()
	for _, line := range strings.Split(out.String(), "\n") {
		if strings.HasPrefix(line, "SCHEDULE ") {
			f := strings.Fields(line)
			r.lastSch = ""
			if len(f) >= 3 {
				r.lastSch = f[2]
			}
		}
		if strings.HasPrefix(line, "RESULT ") {
			json.Unmarshal([]byte(line[7:]), &r.st)
		}
	}
	if r.exit == 66 {
		t := errb.String()
		if i := strings.Index(t, "WARNING: DATA RACE"); i >= 0 {
			t = t[i:]
		}
		if len(t) > 2500 {
			t = t[:2500]
		}
		r.raceText = t
	}
	return r
}

// raceSite extracts "func@file" of the two conflicting accesses for the signature.
func raceSite(t string) string {
	var sites []string
	lines := strings.Split(t, "\n")
	for i, l := range lines {
		if (strings.Contains(l, "Write at") || strings.Contains(l, "Read at") || strings.Contains(l, "Previous write at") || strings.Contains(l, "Previous read at")) && i+1 < len(lines) {
			fn := strings.TrimSpace(lines[i+1])
			if j := strings.Index(fn, "("); j > 0 {
				fn = fn[:j]
			}
			if k := strings.LastIndex(fn, "/"); k >= 0 {
				fn = fn[k+1:]
			}
			sites = append(sites, fn)
		}
	}
	return strings.Join(sites, "~")
}

func init() {
	Registry["C13"] = func(t Tier) *Check {
		chk := &Check{ID: "C13",
			Rule:   "controlled-scheduler exploration (E2) of 9 concurrent query scenarios on the real World built with the vsync overlay and the Go race detector as happens-before monitor: 2-3 goroutines creating, iterating, counting (Count/EntityAt) and closing queries on a shared un-cached filter (first use and first use after the archetype set changed), distinct filters, a shared cached filter, a shared filter with per-goroutine relation targets, a shared UnsafeFilter, and with 61 queries already open (bits 61-63); all interleavings at mutex-operation granularity: 2 threads unbounded, 3 threads with preemption bound 2 (quick) / 4 (thorough); oracle per schedule: no race report, each query's visited set / component sum / Count equals the sequential expectation, no deadlock, afterwards the world is unlocked and 64 fresh queries can be opened; states = schedules, non-trivial = schedules with at least one context switch",
			Assume: []string{"scheduling points at mutex operations only; unsynchronised accesses are caught by the race detector running inside the controlled scheduler (its hand-off is invisible to the detector)", "GOMAXPROCS=1; Go memory-model effects beyond data-race freedom are not modelled"},
		}
		chk.Special = func(tier Tier, rep *engine.Report) error {
			ov, _, err := BuildOverlay("sync", "sync")
			if err != nil {
				return err
			}
			bin := Root() + "/.work/bin/c13w"
			if os.Getenv("VERIF_OVERLAY") != "" {
				bin += "_mut"
			}
			if err := BuildWith(bin, "./c13w", ov, "verif_sched", "-race"); err != nil {
				return err
			}
			listOut, err := exec.Command(bin).Output()
			if err != nil {
				return fmt.Errorf("listing scenarios: %v", err)
			}
			freeRuns := 0
			defer func() {
				rep.PerConfig = append(rep.PerConfig, fmt.Sprintf("C13 auxiliary free-running -race executions (cross-check, not deciding): %d", freeRuns))
			}()
			for _, sc := range strings.Fields(string(listOut)) {
				bound := "-1"
				if strings.HasSuffix(sc, "/3thr") {
					bound = "2"
					if tier == Thorough {
						bound = "4"
					}
				}
				r := runC13Worker(bin, 20*time.Minute, "-scenario", sc, "-bound", bound)
				rep.Histories += int64(r.st.Schedules)
				rep.States += int64(r.st.Distinct)
				rep.NonTrivial += int64(r.st.Distinct)
				rep.Transitions += int64(r.st.Points)
				rep.PerConfig = append(rep.PerConfig, fmt.Sprintf("C13 %s bound=%s: schedules=%d scheduling points=%d max points/schedule=%d distinct thread orders=%d exit=%d", sc, bound, r.st.Schedules, r.st.Points, r.st.MaxPoints, r.st.Distinct, r.exit))
				if len(rep.Samples) < 4 {
					rep.Samples = append(rep.Samples, fmt.Sprintf("scenario %s: schedule (choice index per scheduling point, 0 = keep running thread) e.g. %q", sc, r.lastSch))
				}
				if r.timedOut || r.st.Truncated {
					rep.Exhaustive = false
				}
				var f *engine.Found
				switch {
				case r.exit == 66:
					f = &engine.Found{Scenario: "C13/" + sc, OpKind: raceSite(r.raceText),
						V: drv.Violation{Kind: "race", Msg: fmt.Sprintf("data race in schedule [%s] of %s:\n%s", r.lastSch, sc, r.raceText)}}
					f.Raw, _ = json.Marshal(map[string]string{"scenario": sc, "schedule": r.lastSch, "kind": "race"})
				case r.exit == 3:
					f = &engine.Found{Scenario: "C13/" + sc, OpKind: "deadlock",
						V: drv.Violation{Kind: "deadlock", Msg: fmt.Sprintf("deadlock in schedule [%s] of %s", r.lastSch, sc)}}
					f.Raw, _ = json.Marshal(map[string]string{"scenario": sc, "schedule": r.lastSch, "kind": "deadlock"})
				case r.exit == 1 && r.st.Violation != "":
					f = &engine.Found{Scenario: "C13/" + sc, OpKind: "result",
						V: drv.Violation{Kind: "result", Msg: fmt.Sprintf("schedule [%s] of %s: %s", r.st.Schedule, sc, r.st.Violation)}}
					f.Raw, _ = json.Marshal(map[string]string{"scenario": sc, "schedule": r.st.Schedule, "kind": "result"})
				case r.exit != 0 && !r.timedOut:
					return fmt.Errorf("worker for %s exited with %d (last schedule %s)", sc, r.exit, r.lastSch)
				}
				if f != nil {
					rep.Found = append(rep.Found, *f)
					continue
				}
				// auxiliary (not deciding): the same bodies free-running under -race
				fr := runC13Worker(bin, 5*time.Minute, "-scenario", sc, "-free", "200")
				if fr.exit == 66 {
					g := engine.Found{Scenario: "C13/" + sc + "/free-running", OpKind: raceSite(fr.raceText),
						V: drv.Violation{Kind: "race", Msg: fmt.Sprintf("data race in a free-running execution of %s (not found by the controlled exploration):\n%s", sc, fr.raceText)}}
					rep.Found = append(rep.Found, g)
				}
				freeRuns += 200
			}
			return nil
		}
		replayOne := func(raw []byte) (c13Run, map[string]string) {
			var m map[string]string
			json.Unmarshal(raw, &m)
			bin := Root() + "/.work/bin/c13w"
			if os.Getenv("VERIF_OVERLAY") != "" {
				bin += "_mut"
			}
			return runC13Worker(bin, 2*time.Minute, "-scenario", m["scenario"], "-replay", m["schedule"]), m
		}
		chk.Confirm = func(raw []byte) bool {
			r, m := replayOne(raw)
			switch m["kind"] {
			case "race":
				return r.exit == 66
			case "deadlock":
				return r.exit == 3
			}
			return r.exit == 1
		}
		chk.Replay = func(raw []byte) int {
			var rf struct {
				Extra json.RawMessage `json:"extra"`
			}
			json.Unmarshal(raw, &rf)
			// (re)build the worker against the current tree
			ov, _, err := BuildOverlay("sync", "sync")
			if err == nil {
				err = BuildWith(Root()+"/.work/bin/c13w", "./c13w", ov, "verif_sched", "-race")
			}
			if err != nil {
				fmt.Println(err)
				return 2
			}
			r, m := replayOne(rf.Extra)
			fmt.Printf("replayed schedule [%s] of %s: exit=%d %s\n%s\n", m["schedule"], m["scenario"], r.exit, r.st.Violation, r.raceText)
			if r.exit != 0 {
				fmt.Println("VIOLATION property=C13 replay=-")
				return 1
			}
			return 0
		}
		return chk
	}
}
