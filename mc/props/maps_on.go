//go:build verif_maps

package props

import "github.com/mlange-42/ark/vmap"

// MapSeam tells whether this build iterates maps in explorer-chosen order.
const MapSeam = true

func mapReset(ch []int) { vmap.Reset(ch) }

// mapLog returns the number of permutations offered at each choice point of the last execution.
func mapLog() []int {
	out := make([]int, len(vmap.Log))
	for i, s := range vmap.Log {
		out[i] = s.Perms
	}
	return out
}

func mapSites() []string {
	out := make([]string, len(vmap.Log))
	for i, s := range vmap.Log {
		out[i] = s.Where
	}
	return out
}
