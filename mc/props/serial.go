package props

import (
	"bytes"
	"encoding/json"
	"fmt"

	"github.com/mlange-42/ark/ecs"

	"verif/mc/api"
	"verif/mc/ct"
	"verif/mc/drv"
	"verif/mc/engine"
	"verif/mc/model"
)

func viol(kind string, step int, format string, a ...any) *drv.Violation {
	return &drv.Violation{Kind: kind, Step: step, Msg: fmt.Sprintf(format, a...)}
}

func newWorldLike(cfg drv.Config) *ecs.World {
	if cfg.Cap == 0 {
		return ecs.NewWorld()
	}
	return ecs.NewWorld(cfg.Cap)
}

// dumpLoadLeaf is the C17 oracle evaluated at every node of the pool exploration.
func dumpLoadLeaf(x *drv.World, sc *engine.Scenario, cfg drv.Config, hist []model.Op) (v *drv.Violation) {
	step := len(hist)
	defer func() {
		// every call below is a valid call on a fresh/reset/loaded world: a panic is a violation
		if r := recover(); r != nil {
			v = viol("serial", step, "a valid dump/load/create/remove call panicked: %v", r)
		}
	}()
	dump := x.W.Unsafe().DumpEntities()
	// targets: (a) new world, (b) world with a history then Reset, (c) new world via a JSON round trip of the dump
	mk := []func() (*ecs.World, ecs.EntityDump, string){
		func() (*ecs.World, ecs.EntityDump, string) { return newWorldLike(cfg), dump, "new world" },
		func() (*ecs.World, ecs.EntityDump, string) {
			w := newWorldLike(cfg)
			m := ecs.NewMap1[ct.CP](w)
			e1 := m.NewEntity(&ct.CP{X: 1})
			w.NewEntity()
			m.NewBatch(3, &ct.CP{X: 2})
			w.RemoveEntity(e1)
			w.Reset()
			return w, dump, "reset world"
		},
		func() (*ecs.World, ecs.EntityDump, string) {
			w := newWorldLike(cfg)
			a, b := w.NewEntity(), w.NewEntity()
			w.RemoveEntity(a)
			w.RemoveEntity(b)
			w.Reset()
			return w, dump, "world emptied by removals and then reset"
		},
		func() (*ecs.World, ecs.EntityDump, string) {
			b, err := json.Marshal(&dump)
			var d2 ecs.EntityDump
			if err == nil {
				err = json.Unmarshal(b, &d2)
			}
			if err != nil {
				return nil, d2, "json: " + err.Error()
			}
			return newWorldLike(cfg), d2, "new world via JSON dump"
		},
	}
	// the source keeps creating entities only once (first comparison), so precompute its sequence
	avail := int(dump.Available)
	var srcSeq []ecs.Entity
	for _, f := range mk {
		w, d, what := f()
		if w == nil {
			return viol("serial", step, "EntityDump JSON round trip failed: %s", what)
		}
		w.Unsafe().LoadEntities(&d)
		// alive/dead status of every handle of the current epoch
		for i := x.M.EpochLo; i < len(x.M.Ents) && i < len(x.H); i++ {
			if got := w.Alive(x.H[i]); got != x.M.Ents[i].Alive {
				return viol("serial", step, "after loading into a %s: Alive(%v)=%v, source says %v", what, x.H[i], got, x.M.Ents[i].Alive)
			}
		}
		f0 := ecs.NewFilter0(w)
		q := f0.Query()
		n := q.Count()
		q.Close()
		if n != x.M.NumAlive() {
			return viol("serial", step, "after loading into a %s: %d alive entities, source has %d", what, n, x.M.NumAlive())
		}
		if srcSeq == nil {
			for k := 0; k < avail+2; k++ {
				srcSeq = append(srcSeq, x.W.NewEntity())
			}
		}
		var created []ecs.Entity
		for k := 0; k < avail+2; k++ {
			e := w.NewEntity()
			created = append(created, e)
			if e != srcSeq[k] {
				return viol("serial", step, "creation %d after loading into a %s returned %v, source returned %v", k, what, e, srcSeq[k])
			}
			// liveness bookkeeping must be exact after every single step (recycled ids first, new ids later)
			if !w.Alive(e) {
				return viol("serial", step, "entity %v just created in the loaded world (%s) is not alive", e, what)
			}
			for i := x.M.EpochLo; i < len(x.M.Ents) && i < len(x.H); i++ {
				if got := w.Alive(x.H[i]); got != x.M.Ents[i].Alive {
					return viol("serial", step, "after %d creations in the loaded world (%s): Alive(%v)=%v, source says %v", k+1, what, x.H[i], got, x.M.Ents[i].Alive)
				}
			}
			if k == 0 && avail > 0 {
				// remove and re-create while only recycled ids are in play
				w.RemoveEntity(e)
				if w.Alive(e) {
					return viol("serial", step, "loaded world (%s): entity %v still alive after removal", what, e)
				}
				e2 := w.NewEntity()
				if e2.ID() != e.ID() || e2.Gen() == e.Gen() || !w.Alive(e2) || w.Alive(e) {
					return viol("serial", step, "loaded world (%s): re-creation after removal of %v returned %v (alive=%v)", what, e, e2, w.Alive(e2))
				}
				w.RemoveEntity(e2)
				e3 := w.NewEntity()
				_ = e3
				created[len(created)-1] = e3
			}
		}
		// the loaded world stays usable: remove/recreate and compare liveness bookkeeping
		for _, e := range created {
			if !w.Alive(e) {
				return viol("serial", step, "entity %v created in the loaded world (%s) is not alive", e, what)
			}
		}
		w.RemoveEntity(created[0])
		if w.Alive(created[0]) {
			return viol("serial", step, "entity removed from the loaded world (%s) still alive", what)
		}
		e2 := w.NewEntity()
		if e2 == created[0] || !w.Alive(e2) {
			return viol("serial", step, "loaded world (%s): creation after removal returned %v (removed %v)", what, e2, created[0])
		}
		if used := w.Stats().Entities.Used; used != x.M.NumAlive()+avail+2 {
			return viol("serial", step, "loaded world (%s): Stats().Entities.Used=%d, expected %d", what, used, x.M.NumAlive()+avail+2)
		}
	}
	return nil
}

// codecCheck: JSON and binary codecs over the boundary + walking-one alphabet.
func codecCheck() (cases int, v *drv.Violation) {
	defer func() {
		if r := recover(); r != nil {
			v = viol("codec", 0, "an entity codec call panicked: %v", r)
		}
	}()
	vals := []uint32{0, 1, 2, 255, 256, 65535, 65536, 1<<31 - 1, 1 << 31, 1<<32 - 2, 1<<32 - 1}
	for b := 0; b < 32; b++ {
		vals = append(vals, 1<<b)
	}
	for _, id := range vals {
		for _, gen := range vals {
			cases++
			var e ecs.Entity
			src := fmt.Sprintf("[%d,%d]", id, gen)
			if err := json.Unmarshal([]byte(src), &e); err != nil {
				return cases, viol("codec", 0, "UnmarshalJSON(%s): %v", src, err)
			}
			if e.ID() != id || e.Gen() != gen {
				return cases, viol("codec", 0, "UnmarshalJSON(%s) gave id=%d gen=%d", src, e.ID(), e.Gen())
			}
			out, err := json.Marshal(e)
			if err != nil || string(out) != src {
				return cases, viol("codec", 0, "MarshalJSON of (%d,%d) gave %s (%v)", id, gen, out, err)
			}
			bin, err := e.MarshalBinary()
			want := []byte{byte(id >> 24), byte(id >> 16), byte(id >> 8), byte(id), byte(gen >> 24), byte(gen >> 16), byte(gen >> 8), byte(gen)}
			if err != nil || !bytes.Equal(bin, want) {
				return cases, viol("codec", 0, "MarshalBinary of (%d,%d) gave %v (%v)", id, gen, bin, err)
			}
			app, err := e.AppendBinary([]byte{0xAA})
			if err != nil || len(app) != 9 || app[0] != 0xAA || !bytes.Equal(app[1:], want) {
				return cases, viol("codec", 0, "AppendBinary of (%d,%d) gave %v (%v)", id, gen, app, err)
			}
			var e2 ecs.Entity
			if err := e2.UnmarshalBinary(bin); err != nil || e2 != e {
				return cases, viol("codec", 0, "UnmarshalBinary(%v) gave %v (%v), expected %v", bin, e2, err, e)
			}
		}
	}
	for n := 0; n <= 16; n++ {
		if n == 8 {
			continue
		}
		for _, fill := range []byte{0, 0xFF, 0x5A} {
			cases++
			// a tight slice and one with spare capacity (a decoder must not read beyond len)
			for _, spare := range []int{0, 16} {
				buf := make([]byte, n, n+spare)
				for i := range buf {
					buf[i] = fill
				}
				var e ecs.Entity
				var err error
				if tryDo(func() { err = e.UnmarshalBinary(buf) }) {
					return cases, viol("codec", 0, "UnmarshalBinary panicked on %d bytes of input instead of returning an error: %v", n, lastPanic)
				}
				if err == nil {
					return cases, viol("codec", 0, "UnmarshalBinary accepted %d bytes (capacity %d)", n, n+spare)
				}
			}
		}
	}
	return cases, nil
}

func init() {
	Registry["C17"] = func(t Tier) *Check {
		d := 6
		if t == Thorough {
			d = 7
		}
		u := []ct.Comp{ct.P}
		sc := &engine.Scenario{
			Name:    "C17-dumpload",
			Cfgs:    cfgs([]int{1, 2}, []int{0}, []api.RelMode{api.RelByIdx}, u),
			Filters: []model.FilterSpec{{}, {Params: []ct.Comp{ct.P}}},
			Slots:   1,
			Oracle:  drv.Oracle{Pool: true},
			Preludes: [][]model.Op{nil, {
				{K: model.OpNewPlain}, {K: model.OpNewPlain}, {K: model.OpNewPlain}, {K: model.OpRemoveEntity, E: 1}, {K: model.OpRemoveEntity, E: 0},
			}},
			Alphabet: poolAlphabet(4, true),
			Depth:    d,
			Leaf:     dumpLoadLeaf,
		}
		chk := &Check{ID: "C17", Scenarios: []*engine.Scenario{sc},
			Rule:   "source histories = all histories of the pool alphabet (every free-list shape with <=4 alive ids, Reset) up to the depth bound; at every node DumpEntities -> LoadEntities into (a) a new world, (b) a world that ran a history and was Reset, (c) a new world via a JSON round trip of the dump: Alive agrees for every handle of the source, available+2 consecutive NewEntity calls return identical handles in source and copy, the loaded world stays usable; codecs: (id,gen) over 43x43 boundary and walking-one values through JSON, MarshalBinary, AppendBinary, UnmarshalBinary; binary inputs of length 0..16 except 8 rejected; non-trivial = >=1 alive entity",
			Assume: []string{"codec values outside the boundary + walking-one alphabet are not enumerated (the codecs contain no data-dependent branch)"},
		}
		chk.Special = func(tier Tier, rep *engine.Report) error {
			n, v := codecCheck()
			rep.Histories += int64(n)
			rep.Transitions += int64(n)
			rep.PerConfig = append(rep.PerConfig, fmt.Sprintf("C17 codec cases=%d", n))
			if v != nil {
				rep.Found = append(rep.Found, engine.Found{Scenario: "C17-codec", V: *v, OpKind: "codec"})
			}
			return nil
		}
		return chk
	}
}
