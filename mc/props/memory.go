package props

import (
	"fmt"
	"os"
	"runtime"
	"strconv"
	"sync"
	"weak"

	"verif/mc/api"
	"verif/mc/ct"
	"verif/mc/drv"
	"verif/mc/engine"
	"verif/mc/model"
)

// ---------------------------------------------------------------- C11: memory clean, GC-safe, released

var uMem = []ct.Comp{ct.S, ct.Z, ct.L, ct.Q, ct.T9}

// weak registry of CS pointees (per process; C11 sub mode is single threaded)
var weakReg = map[int64]weak.Pointer[ct.Big]{}

//go:noinline
func probeWeak(w weak.Pointer[ct.Big]) bool { return w.Value() != nil }

//go:noinline
func scrubStack(n int) int {
	var pad [256]uintptr
	for i := range pad {
		pad[i] = uintptr(i + n)
	}
	if n <= 0 {
		return int(pad[17])
	}
	return scrubStack(n-1) + int(pad[3])
}

// memScenarios: small-table moves over pointer-bearing/zero-size/large kinds with uninitialised
// adds, and big tables (1, 64, 65, 70 rows: both table-reset strategies).
func memScenarios(depth int) []*engine.Scenario {
	one := []api.RelMode{api.RelByIdx}
	var scs []*engine.Scenario
	for _, ab := range [][2]ct.Comp{{ct.S, ct.Z}, {ct.L, ct.S}, {ct.S, ct.Q}} {
		o := plainOpts{a: ab[0], b: ab[1], c: ct.NumComps, path: model.PathMapN, maxAlive: 4, copyOp: true, nilInit: true, batch: true, shrink: true, reset: true}
		sc := plainScenario("C11-kinds/"+ab[0].String()+ab[1].String(), o, cfgs([]int{1}, []int{0}, one, uMem), depth,
			drv.Oracle{World: true, Typed: true, Lock: true}, plainPreludes(ab[0], ab[1], model.PathMapN)[:2])
		sc.Oracle.Family = nil
		scs = append(scs, sc)
	}
	// relation component with payload: stale payload must never resurface, tables reset / recycled
	{
		relAlpha := func(m *model.Model) []model.Op {
			var ops []model.Op
			tg := targets(m, 2)
			if m.NumAlive() < 6 {
				ops = append(ops, model.Op{K: model.OpNew, Path: model.PathMapN, Cs: ct.Of(ct.L)})
				for _, t := range tg {
					ops = append(ops,
						model.Op{K: model.OpNew, Path: model.PathMapN, Cs: ct.Of(ct.R2), T: rel(ct.R2, t)},
						model.Op{K: model.OpNew, Path: model.PathMapN, Cs: ct.Of(ct.R2), T: rel(ct.R2, t), Init: model.InitNil},
						model.Op{K: model.OpNewBatch, Path: model.PathMapN, Cs: ct.Of(ct.R2, ct.S), Ord: []ct.Comp{ct.R2, ct.S}, N: 2, T: rel(ct.R2, t), Init: model.InitFn, Fn: true},
						model.Op{K: model.OpNewBatch, Path: model.PathMapN, Cs: ct.Of(ct.R2, ct.S), Ord: []ct.Comp{ct.R2, ct.S}, N: 2, T: rel(ct.R2, t), Init: model.InitNil},
					)
				}
			}
			for _, e := range pick2(with(m, ct.Of(ct.R2))) {
				ops = append(ops, model.Op{K: model.OpRemoveEntity, E: e})
				for _, t := range tg {
					if m.Ents[e].Tgt[ct.R2] != t && t != e {
						ops = append(ops, model.Op{K: model.OpSetRel, Path: model.PathMapN, E: e, T: rel(ct.R2, t)})
					}
				}
			}
			for _, t := range tg[1:] {
				ops = append(ops, model.Op{K: model.OpRemoveEntity, E: t})
				ops = append(ops, model.Op{K: model.OpSetRelBatch, Path: model.PathMapN, F: 0, T: rel(ct.R2, t)})
			}
			ops = append(ops,
				model.Op{K: model.OpRemoveEntities, F: 0, Fn: true},
				model.Op{K: model.OpRemoveBatch, Path: model.PathMapN, F: 1, Rm: ct.Of(ct.S)},
				model.Op{K: model.OpReset}, model.Op{K: model.OpShrink},
			)
			return validOnly(m, ops)
		}
		scs = append(scs, &engine.Scenario{
			Name: "C11-relation-payload", Cfgs: cfgs([]int{1}, []int{0}, one, []ct.Comp{ct.L, ct.R2, ct.S}), Slots: 1,
			Filters:  []model.FilterSpec{{Params: []ct.Comp{ct.R2}}, {Params: []ct.Comp{ct.R2, ct.S}}},
			Oracle:   drv.Oracle{World: true, Lock: true},
			Preludes: [][]model.Op{{{K: model.OpNew, Path: model.PathMapN, Cs: ct.Of(ct.L)}, {K: model.OpNew, Path: model.PathMapN, Cs: ct.Of(ct.L)}}},
			Alphabet: relAlpha, Depth: depth,
		})
	}
	// big tables
	filters := []model.FilterSpec{{Params: []ct.Comp{ct.L}}, {Params: []ct.Comp{ct.S}}, {}}
	bigAlpha := func(m *model.Model) []model.Op {
		var ops []model.Op
		n := m.NumAlive()
		if n < 150 {
			for _, k := range []int{1, 64, 65, 70} {
				ops = append(ops,
					model.Op{K: model.OpNewBatch, Path: model.PathMapN, Cs: ct.Of(ct.L), N: k},
					model.Op{K: model.OpNewBatch, Path: model.PathMapN, Cs: ct.Of(ct.L), N: k, Init: model.InitNil},
					model.Op{K: model.OpNewBatch, Path: model.PathMapN, Cs: ct.Of(ct.S, ct.L), Ord: []ct.Comp{ct.L, ct.S}, N: k, Init: model.InitFn, Fn: true},
					model.Op{K: model.OpNewBatch, Path: model.PathMapN, Cs: ct.Of(ct.S, ct.L), Ord: []ct.Comp{ct.L, ct.S}, N: k, Init: model.InitNil},
				)
			}
		}
		ops = append(ops,
			model.Op{K: model.OpRemoveEntities, F: 0},
			model.Op{K: model.OpRemoveEntities, F: 1, Fn: true},
			model.Op{K: model.OpRemoveBatch, Path: model.PathMapN, F: 1, Rm: ct.Of(ct.S)},
			model.Op{K: model.OpAddBatch, Path: model.PathMapN, F: 0, Cs: ct.Of(ct.Q), Init: model.InitNil},
			model.Op{K: model.OpReset}, model.Op{K: model.OpShrink},
		)
		if al := m.Alive(); len(al) > 0 {
			ops = append(ops, model.Op{K: model.OpRemoveEntity, E: al[0]}, model.Op{K: model.OpRemoveEntity, E: al[len(al)-1]})
		}
		return validOnly(m, ops)
	}
	scs = append(scs, &engine.Scenario{
		Name: "C11-big-tables", Cfgs: cfgs([]int{1, 128}, []int{0}, one, uMem), Filters: filters, Slots: 1,
		Oracle: drv.Oracle{World: true, Lock: true}, Alphabet: bigAlpha, Depth: depth - 1,
		// also from tables that already hold 70 / 65 rows of pointer-free and pointer-bearing components
		Preludes: [][]model.Op{nil,
			{{K: model.OpNewBatch, Path: model.PathMapN, Cs: ct.Of(ct.L), N: 70}},
			{{K: model.OpNewBatch, Path: model.PathMapN, Cs: ct.Of(ct.S, ct.L), Ord: []ct.Comp{ct.L, ct.S}, N: 65, Init: model.InitFn, Fn: true}, {K: model.OpNewBatch, Path: model.PathMapN, Cs: ct.Of(ct.L), N: 66}}},
	})
	return scs
}

type memTask struct {
	sc      *engine.Scenario
	cfg     drv.Config
	prelude []model.Op
	start   []model.Op
}

func memTasks(depth int) []memTask {
	var tasks []memTask
	for _, sc := range memScenarios(depth) {
		pres := sc.Preludes
		if len(pres) == 0 {
			pres = [][]model.Op{nil}
		}
		for _, cfg := range sc.Cfgs {
			for _, p := range pres {
				x, v := engine.RunHistory(sc, cfg, p, nil)
				if v != nil {
					continue
				}
				for _, op := range sc.Alphabet(x.M) {
					tasks = append(tasks, memTask{sc, cfg, p, []model.Op{op}})
				}
			}
		}
	}
	return tasks
}

// memRunNode runs one history: base run, release oracle, then one run per GC point of the last op.
func memRunNode(t memTask, hist []model.Op, bound int, viol *[]drv.Violation, runs, points *int) []model.Op {
	add := func(v *drv.Violation, what string) {
		if len(*viol) < 30 {
			v.Msg = fmt.Sprintf("%s [%s cfg{%v} prelude=%v history=%v]", v.Msg, what, t.cfg, t.prelude, hist)
			*viol = append(*viol, *v)
		}
	}
	// base run, recording the GC-point counter at the start of the last op
	clear(weakReg)
	ct.OnAllocS = func(tok int64, p *ct.Big) { weakReg[tok] = weak.Make(p) }
	all := len(t.prelude) + len(hist)
	lastStart := 0
	gcReset(nil)
	x, v := runHistoryHook(t.sc, t.cfg, t.prelude, hist, func(step int) {
		if step == all {
			lastStart = gcCalls()
		}
	})
	ct.OnAllocS = nil
	*runs++
	lastEnd := gcCalls()
	if v != nil {
		add(v, "no GC deviation")
		return nil
	}
	// (c) release: pointees referenced only by removed components must be collectable,
	// pointees of live components must stay.
	live := map[int64]bool{}
	for i := range x.M.Ents {
		if e := &x.M.Ents[i]; e.Alive && e.Comps.Has(ct.S) && e.Val[ct.S] != 0 {
			live[e.Val[ct.S]] = true
		}
	}
	if len(weakReg) > 0 {
		runtime.GC()
		for attempt := 0; ; attempt++ {
			leaked := int64(0)
			for tok, w := range weakReg {
				if !live[tok] && probeWeak(w) {
					leaked = tok
					break
				}
			}
			if leaked == 0 {
				break
			}
			if attempt >= 3 {
				add(&drv.Violation{Kind: "release", Step: all, Msg: fmt.Sprintf("data (token %d) referenced only by a removed pointer-bearing component is still reachable after 4 garbage collections", leaked)}, "release oracle")
				return nil
			}
			scrubStack(8)
			runtime.GC()
		}
		for tok, w := range weakReg {
			if live[tok] && !probeWeak(w) {
				add(&drv.Violation{Kind: "freed", Step: all, Msg: fmt.Sprintf("data (token %d) of a live pointer-bearing component was collected", tok)}, "release oracle")
				return nil
			}
		}
		runtime.KeepAlive(x)
	}
	succ := t.sc.Alphabet(x.M)
	// (b) GC deviations at every point inside the last operation
	if GCSeam && all > 0 && t.sc.Name != "C11-big-tables" {
		// at most maxPts points per operation: the first ones and the last ones (loops over
		// rows hit the same site once per row)
		maxPts := 14
		if bound >= 2 && len(hist) <= 2 {
			maxPts = 40
		}
		var sel []int
		for k := lastStart; k < lastEnd; k++ {
			if lastEnd-lastStart > maxPts && k-lastStart >= maxPts-4 && lastEnd-k > 4 {
				continue
			}
			sel = append(sel, k)
		}
		// pairs of GC points for histories up to depth 3 (single points at the full depth); at depth 3 among
		// the first 6 and last 4 selected points
		pairSel := sel
		if len(hist) == 3 && len(sel) > 10 {
			pairSel = append(append([]int{}, sel[:6]...), sel[len(sel)-4:]...)
		}
		inPair := map[int]bool{}
		for _, k := range pairSel {
			inPair[k] = true
		}
	points:
		for _, k := range sel {
			*points++
			gcReset(map[int]bool{k: true})
			_, v := engine.RunHistory(t.sc, t.cfg, t.prelude, hist)
			*runs++
			if v != nil {
				add(v, fmt.Sprintf("GC at point %d (of %d..%d in the last op)", k, lastStart, lastEnd))
				break
			}
			if bound >= 2 && len(hist) <= 3 && inPair[k] {
				for _, k2 := range pairSel {
					if k2 <= k {
						continue
					}
					gcReset(map[int]bool{k: true, k2: true})
					_, v := engine.RunHistory(t.sc, t.cfg, t.prelude, hist)
					*runs++
					if v != nil {
						add(v, fmt.Sprintf("GC at points %d and %d", k, k2))
						break points
					}
				}
			}
		}
		gcReset(nil)
	}
	return succ
}

func runHistoryHook(sc *engine.Scenario, cfg drv.Config, prelude, hist []model.Op, hook func(step int)) (*drv.World, *drv.Violation) {
	engine.StepHook = hook
	defer func() { engine.StepHook = nil }()
	return engine.RunHistory(sc, cfg, prelude, hist)
}

func init() {
	SubModes["C11"] = func(args []string) *SubResult {
		depth, bound := 3, 1
		if len(args) > 0 && args[0] == "thorough" {
			depth, bound = 4, 2
		}
		shard, nshard := 0, 1
		if len(args) >= 3 {
			shard, _ = strconv.Atoi(args[1])
			nshard, _ = strconv.Atoi(args[2])
		}
		tasks := memTasks(depth)
		r := &SubResult{}
		for k := range tasks {
			if k%nshard != shard {
				continue
			}
			t := tasks[k]
			var dfs func(hist []model.Op)
			dfs = func(hist []model.Op) {
				if pastDeadline() {
					r.Truncated = true
					return
				}
				r.Cases++
				succ := memRunNode(t, hist, bound, &r.Violations, &r.Steps, &r.Points)
				if len(hist) >= t.sc.Depth {
					return
				}
				for _, op := range succ {
					dfs(append(hist, op))
				}
			}
			dfs(append([]model.Op{}, t.start...))
		}
		return r
	}

	Registry["C11"] = func(t Tier) *Check {
		chk := &Check{ID: "C11",
			Rule:   "histories = all histories up to depth 3 (quick) / 4 (thorough) over moves, uninitialised adds (nil callbacks), copies, batch moves, Reset and Shrink on pointer-bearing (pointer, slice, string, map), zero-size and large components at capacity 1, and over batches of 1/64/65/70 rows (both table-reset strategies) followed by removal/reset and uninitialised re-creation. Per history: (a) every component added without a value reads as zero and all values equal the model; (b) in a binary built with the gc overlay (a hook at the entry of every function of table.go, column.go, util.go) the history is re-executed once per GC point inside its last operation (at most 14 points per operation: the first 10 and last 4; thorough: also every pair of up to 40 points for histories up to depth 2 and of 10 points at depth 3) with two forced collections at that point, under GODEBUG=clobberfree=1: all pointees must still hold the model's values; (c) weak pointers to every pointee: after one forced collection data referenced only by removed components must be gone and data of live components must not; (d) memory sweep: relation components with 1..100 payload bytes as the largest component of their archetype - rows vacated by swap-remove, batch reset and target death read as zero when re-used without a value; a pointer-bearing type registered right after a registration that was rejected on a locked world keeps its data across archetype moves and collections; states = histories, non-trivial = GC points exercised",
			Assume: []string{"a missing write barrier is only observable while the collector marks concurrently with the copy; a forced collection at a hook point is not concurrent, so that part of the quantifier ('GC running concurrently at any point') is covered at the granularity of the inserted GC points only"},
		}
		chk.Special = func(tier Tier, rep *engine.Report) error {
			ts := "quick"
			if tier == Thorough {
				ts = "thorough"
			}
			ov, rw, err := BuildOverlay("gc", "gc")
			if err != nil {
				return err
			}
			extraOverlay["verif_gc"] = ov
			rep.PerConfig = append(rep.PerConfig, fmt.Sprintf("C11 gc rewrite: %v", rw))
			if _, err := BuildTagged("verif_gc"); err != nil {
				return err
			}
			os.Setenv("GODEBUG", "clobberfree=1")
			os.Setenv("GOMAXPROCS", "1") // one shard per core; keeps forced collections cheap
			defer os.Unsetenv("GOMAXPROCS")
			const shards = 16
			res := make([]*SubResult, shards)
			errs := make([]error, shards)
			var wg sync.WaitGroup
			for s := 0; s < shards; s++ {
				wg.Add(1)
				go func(s int) {
					defer wg.Done()
					res[s], errs[s] = RunSubPrebuilt("C11", "verif_gc", ts, strconv.Itoa(s), strconv.Itoa(shards))
				}(s)
			}
			wg.Wait()
			for _, e := range errs {
				if e != nil {
					return e
				}
			}
			noteTruncated(rep, "C11", res...)
			points := 0
			for _, r := range res {
				rep.Histories += int64(r.Steps)
				rep.States += int64(r.Cases)
				rep.Transitions += int64(r.Steps * 5)
				points += r.Points
				for _, v := range r.Violations {
					rep.Found = append(rep.Found, engine.Found{Scenario: "C11-memory", V: v, OpKind: v.OpKind})
				}
			}
			// payload-carrying relation components of every size class; type flags after a rejected registration
			// (own process, clobberfree: a corrupted heap kills it, which is reported as a crash finding)
			if mr, err := RunSubPrebuilt("C11mem", "verif_gc"); err != nil {
				return err
			} else {
				rep.Histories += int64(mr.Cases)
				rep.States += int64(mr.Cases)
				rep.Transitions += int64(mr.Steps)
				rep.PerConfig = append(rep.PerConfig, fmt.Sprintf("C11 memory sweep: cases=%d checked steps=%d", mr.Cases, mr.Steps))
				for _, v := range mr.Violations {
					rep.Found = append(rep.Found, engine.Found{Scenario: "C11-memory-sweep", V: v, OpKind: "memory-sweep"})
				}
			}
			rep.NonTrivial += int64(points)
			rep.PerConfig = append(rep.PerConfig, fmt.Sprintf("C11: GC points exercised (one re-execution each): %d", points))
			rep.Samples = append(rep.Samples, "history [New{S} ; New{S,Z}(fn) ; Add(#0,+Z,nil) ; RemoveEntity(#1)] re-executed with runtime.GC() x2 at each of the vgc points inside RemoveEntity (table.go:Remove, column.go:Zero, ...), then weak pointers of #1's pointee must be nil and #0's non-nil")
			return nil
		}
		return chk
	}
}
