package props

import (
	"fmt"
	"reflect"

	"github.com/mlange-42/ark/ecs"

	"verif/mc/drv"
)

// Resource-type half of C18's registry sweep: the resource registry has the same documented capacity as
// the component registry, and Add/Get/Has/Remove must behave as a map for every one of the IDs.

type resIface1 interface{ A() int }
type resIface2 interface{ B() int }
type resIface3 interface {
	A() int
	B() int
}
type resImpl struct{ v int }

func (r resImpl) A() int { return r.v }
func (r resImpl) B() int { return -r.v }

type resStruct struct{ V int }
type resFunc func() int

// resourceCase registers n resource types, then uses the boundary IDs (all IDs when n is the maximum).
func resourceCase(n, order int) (steps int, v *drv.Violation) {
	fail := func(format string, a ...any) (int, *drv.Violation) {
		return steps, viol("resource-registry", steps, "n=%d order=%d: %s", n, order, fmt.Sprintf(format, a...))
	}
	w := ecs.NewWorld(2)
	typeOf := func(i int) reflect.Type {
		if order == 1 {
			return dummyType(MaxComps + 1 - i)
		}
		return dummyType(i)
	}
	ids := make([]ecs.ResID, 0, n)
	for i := 0; i < n; i++ {
		steps++
		var id ecs.ResID
		if tryDo(func() { id = ecs.ResourceTypeID(w, typeOf(i)) }) {
			return fail("registering resource type #%d (of max %d) panicked: %v", i+1, MaxComps, lastPanic)
		}
		for j, old := range ids {
			if old == id {
				return fail("resource type #%d got ID %d, which resource type #%d already has", i, id.Index(), j)
			}
		}
		ids = append(ids, id)
	}
	for i := 0; i < n; i++ {
		steps++
		if id := ecs.ResourceTypeID(w, typeOf(i)); id != ids[i] {
			return fail("re-requesting resource type #%d returned ID %d, first time %d", i, id.Index(), ids[i].Index())
		}
		if tp, ok := ecs.ResourceType(w, ids[i]); !ok || tp != typeOf(i) {
			return fail("ResourceType(%d) = %v ok=%v, expected %v", ids[i].Index(), tp, ok, typeOf(i))
		}
	}
	if got := len(ecs.ResourceIDs(w)); got != n {
		return fail("ResourceIDs has %d entries, %d types registered", got, n)
	}
	if n == MaxComps {
		steps++
		if !tryDo(func() { ecs.ResourceTypeID(w, dummyType(MaxComps+9)) }) {
			return fail("registering resource type #%d did not panic", MaxComps+1)
		}
		if got := len(ecs.ResourceIDs(w)); got != MaxComps {
			return fail("after the rejected resource registration #%d ResourceIDs has %d entries", MaxComps+1, got)
		}
		if id := ecs.ResourceTypeID(w, typeOf(3)); id != ids[3] {
			return fail("lookup after overflow returned %d for resource type #3", id.Index())
		}
	}
	// usability: the map behaviour of Add / Has / Get / Remove on every selected ID
	sel := []int{}
	for _, i := range []int{0, 1, 2, 31, 62, 63, 64, 65, 126, 127, 128, 129, 190, 191, 192, 193, 254, 255} {
		if i < n {
			sel = append(sel, i)
		}
	}
	if n == MaxComps {
		sel = sel[:0]
		for i := 0; i < n; i++ {
			sel = append(sel, i)
		}
	} else if n > 0 && (len(sel) == 0 || sel[len(sel)-1] != n-1) {
		sel = append(sel, n-1)
	}
	rs := w.Resources()
	vals := make([]*int, n)
	present := make([]bool, n)
	checkAll := func(when string) *drv.Violation {
		for _, i := range sel {
			var has bool
			var got any
			if tryDo(func() { has = rs.Has(ids[i]); got = rs.Get(ids[i]) }) {
				return viol("resource-registry", steps, "n=%d order=%d: %s: Has/Get of resource ID %d panicked (%d resource types registered): %v", n, order, when, ids[i].Index(), n, lastPanic)
			}
			if has != present[i] {
				return viol("resource-registry", steps, "n=%d order=%d: %s: Has(%d)=%v, expected %v", n, order, when, ids[i].Index(), has, present[i])
			}
			if present[i] {
				if p, ok := got.(*int); !ok || p != vals[i] || *p != 1000+i {
					return viol("resource-registry", steps, "n=%d order=%d: %s: Get(%d) does not return the value added for that type", n, order, when, ids[i].Index())
				}
			} else if got != nil {
				return viol("resource-registry", steps, "n=%d order=%d: %s: Get(%d) of an absent resource is not nil", n, order, when, ids[i].Index())
			}
		}
		return nil
	}
	if v := checkAll("before any Add"); v != nil {
		return steps, v
	}
	for k, i := range sel {
		steps++
		x := 1000 + i
		vals[i] = &x
		if tryDo(func() { rs.Add(ids[i], vals[i]) }) {
			return fail("Add of resource ID %d panicked (%d resource types registered): %v", ids[i].Index(), n, lastPanic)
		}
		present[i] = true
		if !tryDo(func() { y := 5; rs.Add(ids[i], &y) }) {
			return fail("second Add of resource ID %d did not panic", ids[i].Index())
		}
		if k%16 == 0 || k == len(sel)-1 {
			if v := checkAll(fmt.Sprintf("after Add(%d)", ids[i].Index())); v != nil {
				return steps, v
			}
		}
	}
	for k, i := range sel {
		if k%2 == 1 {
			continue
		}
		steps++
		if tryDo(func() { rs.Remove(ids[i]) }) {
			return fail("Remove of present resource ID %d panicked: %v", ids[i].Index(), lastPanic)
		}
		present[i] = false
		if !tryDo(func() { rs.Remove(ids[i]) }) {
			return fail("Remove of absent resource ID %d did not panic", ids[i].Index())
		}
		if k%16 == 0 || k >= len(sel)-2 {
			if v := checkAll(fmt.Sprintf("after Remove(%d)", ids[i].Index())); v != nil {
				return steps, v
			}
		}
	}
	if v := checkAll("at the end"); v != nil {
		return steps, v
	}
	return steps, nil
}

// genericTypeCase: the generic entry points (ResourceID[T], ComponentID[T], NewResource[T]) map every kind of
// Go type - also interface, function and pointer types - to the same ID as the reflect.Type based functions,
// and distinct types to distinct IDs.
func genericTypeCase() (steps int, v *drv.Violation) {
	fail := func(format string, a ...any) (int, *drv.Violation) {
		return steps, viol("generic-registry", steps, "%s", fmt.Sprintf(format, a...))
	}
	w := ecs.NewWorld(2)
	type entry struct {
		name string
		rid  ecs.ResID
		tp   reflect.Type
	}
	var es []entry
	add := func(name string, rid ecs.ResID, tp reflect.Type) { es = append(es, entry{name, rid, tp}) }
	add("resStruct", ecs.ResourceID[resStruct](w), reflect.TypeFor[resStruct]())
	add("resIface1", ecs.ResourceID[resIface1](w), reflect.TypeFor[resIface1]())
	add("*resStruct", ecs.ResourceID[*resStruct](w), reflect.TypeFor[*resStruct]())
	add("resIface2", ecs.ResourceID[resIface2](w), reflect.TypeFor[resIface2]())
	add("any", ecs.ResourceID[any](w), reflect.TypeFor[any]())
	add("resFunc", ecs.ResourceID[resFunc](w), reflect.TypeFor[resFunc]())
	add("resIface3", ecs.ResourceID[resIface3](w), reflect.TypeFor[resIface3]())
	add("[]int", ecs.ResourceID[[]int](w), reflect.TypeFor[[]int]())
	add("error", ecs.ResourceID[error](w), reflect.TypeFor[error]())
	for i, a := range es {
		steps++
		for _, b := range es[:i] {
			if a.rid == b.rid {
				return fail("resource types %s and %s share ID %d", b.name, a.name, a.rid.Index())
			}
		}
		if id := ecs.ResourceTypeID(w, a.tp); id != a.rid {
			return fail("ResourceID[%s] = %d but ResourceTypeID(reflect.TypeFor[%s]) = %d", a.name, a.rid.Index(), a.name, id.Index())
		}
		if tp, ok := ecs.ResourceType(w, a.rid); !ok || tp != a.tp {
			return fail("ResourceType(ResourceID[%s]) = %v ok=%v", a.name, tp, ok)
		}
	}
	if got := len(ecs.ResourceIDs(w)); got != len(es) {
		return fail("%d distinct resource types registered, ResourceIDs has %d entries", len(es), got)
	}
	// re-request in reverse order
	for i := len(es) - 1; i >= 0; i-- {
		steps++
		if id := ecs.ResourceTypeID(w, es[i].tp); id != es[i].rid {
			return fail("resource type %s maps to ID %d and then to %d", es[i].name, es[i].rid.Index(), id.Index())
		}
	}
	if ecs.ResourceID[resIface2](w) != es[3].rid || ecs.ResourceID[resIface1](w) != es[1].rid || ecs.ResourceID[any](w) != es[4].rid {
		return fail("ResourceID[T] of an interface type is not stable")
	}
	// interface-typed resources are independent map entries
	r1 := ecs.NewResource[resIface1](w)
	r2 := ecs.NewResource[resIface2](w)
	r3 := ecs.NewResource[resIface3](w)
	var i1 resIface1 = resImpl{1}
	var i2 resIface2 = resImpl{2}
	steps++
	if r1.Has() || r2.Has() || r3.Has() {
		return fail("interface-typed resource present before Add")
	}
	if tryDo(func() { r1.Add(&i1) }) {
		return fail("Add of resource of interface type resIface1 panicked: %v", lastPanic)
	}
	if !r1.Has() || r2.Has() || r3.Has() {
		return fail("after adding the resource of type resIface1: Has = %v/%v/%v for resIface1/2/3", r1.Has(), r2.Has(), r3.Has())
	}
	if tryDo(func() { r2.Add(&i2) }) {
		return fail("Add of resource of interface type resIface2 panicked while only resIface1 was present: %v", lastPanic)
	}
	if p := r1.Get(); p != &i1 || (*p).A() != 1 {
		return fail("Get of resource resIface1 does not return the added value")
	}
	if p := r2.Get(); p != &i2 || (*p).B() != -2 {
		return fail("Get of resource resIface2 does not return the added value")
	}
	if ecs.GetResource[resIface1](w) != &i1 || ecs.GetResource[resIface2](w) != &i2 || ecs.GetResource[resIface3](w) != nil {
		return fail("GetResource[T] disagrees with Resource[T].Get for interface types")
	}
	r1.Remove()
	if r1.Has() || !r2.Has() {
		return fail("after removing resIface1: Has = %v/%v", r1.Has(), r2.Has())
	}
	// the same for component types
	type centry struct {
		name string
		id   ecs.ID
		tp   reflect.Type
	}
	cs := []centry{
		{"resStruct", ecs.ComponentID[resStruct](w), reflect.TypeFor[resStruct]()},
		{"resIface1", ecs.ComponentID[resIface1](w), reflect.TypeFor[resIface1]()},
		{"*resStruct", ecs.ComponentID[*resStruct](w), reflect.TypeFor[*resStruct]()},
		{"resIface2", ecs.ComponentID[resIface2](w), reflect.TypeFor[resIface2]()},
		{"any", ecs.ComponentID[any](w), reflect.TypeFor[any]()},
		{"resFunc", ecs.ComponentID[resFunc](w), reflect.TypeFor[resFunc]()},
	}
	for i, a := range cs {
		steps++
		for _, b := range cs[:i] {
			if a.id == b.id {
				return fail("component types %s and %s share ID %d", b.name, a.name, a.id.Index())
			}
		}
		if id := ecs.TypeID(w, a.tp); id != a.id {
			return fail("ComponentID[%s] = %d but TypeID(reflect.TypeFor[%s]) = %d", a.name, a.id.Index(), a.name, id.Index())
		}
		if info, ok := ecs.ComponentInfo(w, a.id); !ok || info.Type != a.tp {
			return fail("ComponentInfo(ComponentID[%s]).Type = %v ok=%v", a.name, info.Type, ok)
		}
		if c := ecs.C[resIface1](); c.Type() != reflect.TypeFor[resIface1]() {
			return fail("C[resIface1]().Type() = %v", c.Type())
		}
	}
	// an interface-typed component is usable
	m := ecs.NewMap1[resIface1](w)
	e := m.NewEntity(&i1)
	steps++
	if got := m.Get(e); got == nil || *got == nil || (*got).A() != 1 {
		return fail("component of interface type does not hold the value it was created with")
	}
	if !w.Unsafe().Has(e, cs[1].id) || w.Unsafe().Has(e, cs[3].id) {
		return fail("entity created with component resIface1: Has(resIface1)=%v Has(resIface2)=%v", w.Unsafe().Has(e, cs[1].id), w.Unsafe().Has(e, cs[3].id))
	}
	return steps, nil
}

// ResourceSweep runs the resource and generic-type cases of the current build.
func ResourceSweep() (cases, steps int, found []*drv.Violation) {
	run := func(name string, f func() (int, *drv.Violation)) {
		cases++
		var v *drv.Violation
		var s int
		func() {
			defer func() {
				if r := recover(); r != nil {
					v = viol("resource-registry", 0, "%s: unexpected panic: %v", name, r)
				}
			}()
			s, v = f()
		}()
		steps += s
		if v != nil {
			found = append(found, v)
		}
	}
	for _, n := range []int{0, 1, 2, 63, 64, 65, 127, 128, 129, 192, 255, 256} {
		if n > MaxComps {
			continue
		}
		for order := 0; order < 2; order++ {
			n, order := n, order
			run(fmt.Sprintf("n=%d order=%d", n, order), func() (int, *drv.Violation) { return resourceCase(n, order) })
		}
	}
	run("generic types", genericTypeCase)
	return
}
