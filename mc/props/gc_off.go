//go:build !verif_gc

package props

// GCSeam tells whether this build has GC points inside package ecs.
const GCSeam = false

func gcReset(at map[int]bool) {}
func gcCalls() int            { return 0 }
func gcSites() int            { return 0 }
