package props

import (
	"fmt"
	"reflect"
	"runtime"
	"unsafe"

	"github.com/mlange-42/ark/ecs"

	"verif/mc/ct"
	"verif/mc/drv"
	"verif/mc/engine"
)

// Threshold sweeps. Package ecs contains a handful of size constants (pooled scratch slices of 8, 16, 32 and
// 256 elements, the 64-row fast path of column resets, 128 pre-allocated archetypes, 249 custom event types,
// per-component archetype counters). The bounded histories elsewhere stay far below most of them. Each sweep
// here fixes one short, deterministic history and enumerates ONE size parameter over the values around every
// such constant, with an explicit expectation after every step. Component types are synthesised with
// package reflect, so entities can be wider and relation components more numerous than the 12 fixed types
// of the history explorer allow.

var relationMarkerT = reflect.TypeFor[ecs.RelationMarker]()

// thFiller(i): pointer-free filler component types of distinct sizes.
func thFiller(i int) reflect.Type { return reflect.ArrayOf(i+1, int8T) }

// thPtrFiller(i): pointer-bearing component types (first field a *int64, distinct tails).
func thPtrFiller(i int) reflect.Type {
	return reflect.StructOf([]reflect.StructField{
		{Name: "P", Type: reflect.TypeFor[*int64]()},
		{Name: "K", Type: reflect.ArrayOf(i+1, int8T)},
	})
}

// thRel(i): relation component types (RelationMarker first) with a payload of distinct size.
func thRel(i int) reflect.Type {
	return reflect.StructOf([]reflect.StructField{
		{Name: "RelationMarker", Type: relationMarkerT},
		{Name: "V", Type: reflect.ArrayOf(i+1, int8T)},
	})
}

type thWorld struct {
	w     *ecs.World
	u     ecs.Unsafe
	steps int
	what  string
}

func (t *thWorld) fail(format string, a ...any) *drv.Violation {
	return viol("threshold", t.steps, "%s: %s", t.what, fmt.Sprintf(format, a...))
}

// try runs f; a panic of a valid call is a violation.
func (t *thWorld) try(desc string, f func()) *drv.Violation {
	t.steps++
	if tryDo(f) {
		return t.fail("valid call %s panicked: %v", desc, lastPanic)
	}
	return nil
}

// payload offset of the first data byte of a component (relation components start with the zero-size marker).
func tagPtr(p unsafe.Pointer) *int8 { return (*int8)(p) }

// ---------------------------------------------------------------- wide entities (scratch slices of 8 and 16)

// wideCase: an entity with r relation components and w plain components; relation targets are set, changed,
// die one after the other and in a batch.
func wideCase(w, r int, retargetFirst bool) (int, *drv.Violation) {
	t := &thWorld{w: ecs.NewWorld(2), what: fmt.Sprintf("wide entity (%d relation + %d plain components, retarget before the first target dies: %v)", r, w, retargetFirst)}
	t.u = t.w.Unsafe()
	world, u := t.w, t.u
	var rel, plain, all []ecs.ID
	for i := 0; i < r; i++ {
		rel = append(rel, ecs.TypeID(world, thRel(i)))
	}
	for i := 0; i < w; i++ {
		plain = append(plain, ecs.TypeID(world, thFiller(i+40)))
	}
	all = append(append(all, rel...), plain...)
	t1, t2, t3 := world.NewEntity(), world.NewEntity(), world.NewEntity()
	relsTo := func(tg ecs.Entity) []ecs.Relation {
		var out []ecs.Relation
		for _, id := range rel {
			out = append(out, ecs.RelID(id, tg))
		}
		return out
	}
	var c1, c2 ecs.Entity
	if v := t.try("NewEntityRel (child of t1)", func() { c1 = u.NewEntityRel(all, relsTo(t1)...) }); v != nil {
		return t.steps, v
	}
	if v := t.try("NewEntityRel (child of t2)", func() { c2 = u.NewEntityRel(all, relsTo(t2)...) }); v != nil {
		return t.steps, v
	}
	tag := func(e ecs.Entity, base int) {
		for k, id := range plain {
			*tagPtr(u.Get(e, id)) = int8(base + k)
		}
	}
	tag(c1, 1)
	tag(c2, 3)
	expect := func(when string, e ecs.Entity, base int, want []ecs.Entity) *drv.Violation {
		t.steps++
		if !world.Alive(e) {
			return t.fail("%s: child %v is not alive", when, e)
		}
		ids := u.IDs(e)
		if ids.Len() != len(all) {
			return t.fail("%s: child has %d components, expected %d", when, ids.Len(), len(all))
		}
		for k, id := range rel {
			var got ecs.Entity
			if tryDo(func() { got = u.GetRelation(e, id) }) {
				return t.fail("%s: GetRelation of relation component %d panicked: %v", when, k, lastPanic)
			}
			if got != want[k] {
				return t.fail("%s: relation component %d of child %v targets %v, expected %v", when, k, e, got, want[k])
			}
			if !got.IsZero() && !world.Alive(got) {
				return t.fail("%s: relation component %d targets the dead entity %v", when, k, got)
			}
		}
		for k, id := range plain {
			if b := *tagPtr(u.Get(e, id)); b != int8(base+k) {
				return t.fail("%s: plain component %d of child %v holds %d, wrote %d", when, k, e, b, int8(base+k))
			}
		}
		return nil
	}
	fill := func(tg ecs.Entity) []ecs.Entity {
		out := make([]ecs.Entity, r)
		for i := range out {
			out[i] = tg
		}
		return out
	}
	count := func(when string, tg ecs.Entity, want int) *drv.Violation {
		t.steps++
		q := ecs.NewUnsafeFilter(world, rel[:1]...).Query(ecs.RelID(rel[0], tg))
		n := q.Count()
		q.Close()
		if n != want {
			return t.fail("%s: %d entities have %v as target of the first relation component, expected %d", when, n, tg, want)
		}
		return nil
	}
	w1, w2 := fill(t1), fill(t2)
	for _, v := range []*drv.Violation{expect("after creation", c1, 1, w1), expect("after creation", c2, 3, w2)} {
		if v != nil {
			return t.steps, v
		}
	}
	// retarget the first relation component of c1 (in the other variant the first operation on the wide
	// entity after its creation is the death of its target)
	if retargetFirst {
		if v := t.try("SetRelations(first relation -> t3)", func() { u.SetRelations(c1, ecs.RelID(rel[0], t3)) }); v != nil {
			return t.steps, v
		}
		w1[0] = t3
		if v := expect("after SetRelations", c1, 1, w1); v != nil {
			return t.steps, v
		}
	}
	// t1 dies: every relation of c1 that pointed to it is reset, c2 is untouched
	if v := t.try("RemoveEntity(t1)", func() { world.RemoveEntity(t1) }); v != nil {
		return t.steps, v
	}
	for k := range w1 {
		if w1[k] == t1 {
			w1[k] = ecs.Entity{}
		}
	}
	for _, v := range []*drv.Violation{expect("after the target t1 was removed", c1, 1, w1), expect("after the target t1 was removed", c2, 3, w2), count("after the target t1 was removed", t3, map[bool]int{true: 1, false: 0}[retargetFirst])} {
		if v != nil {
			return t.steps, v
		}
	}
	// all relations of c1 -> t2 in one call (the ID-based API has no batch form)
	if v := t.try("SetRelations(all -> t2)", func() { u.SetRelations(c1, relsTo(t2)...) }); v != nil {
		return t.steps, v
	}
	w1 = fill(t2)
	for _, v := range []*drv.Violation{expect("after SetRelations(all)", c1, 1, w1), expect("after SetRelations(all)", c2, 3, w2), count("after SetRelations(all)", t2, 2), count("after SetRelations(all)", t3, 0)} {
		if v != nil {
			return t.steps, v
		}
	}
	// the remaining targets die in one batch (entities without components)
	if v := t.try("RemoveEntities(targets)", func() { world.RemoveEntities(ecs.NewFilter0(world).Exclusive().Batch(), nil) }); v != nil {
		return t.steps, v
	}
	w1, w2 = fill(ecs.Entity{}), fill(ecs.Entity{})
	for _, v := range []*drv.Violation{expect("after all targets were removed", c1, 1, w1), expect("after all targets were removed", c2, 3, w2), count("after all targets were removed", ecs.Entity{}, 2)} {
		if v != nil {
			return t.steps, v
		}
	}
	// a fresh target, then the plain components go away in one call
	t4 := world.NewEntity()
	if v := t.try("SetRelations(all -> t4)", func() { u.SetRelations(c2, relsTo(t4)...) }); v != nil {
		return t.steps, v
	}
	if w > 0 {
		if v := t.try("Remove(all plain components)", func() { u.Remove(c2, plain...) }); v != nil {
			return t.steps, v
		}
		plainSaved := plain
		plain, all = nil, rel
		if v := expect("after removing the plain components", c2, 3, fill(t4)); v != nil {
			return t.steps, v
		}
		plain, all = plainSaved, append(append([]ecs.ID{}, rel...), plainSaved...)
	}
	if v := expect("at the end", c1, 1, w1); v != nil {
		return t.steps, v
	}
	return t.steps, nil
}

// ---------------------------------------------------------------- many relation tables in one batch (32, 256)

// manyTargetsCase: n targets with one child table each; batch operations through a registered or an
// unregistered filter; finally all targets are removed in one call.
func manyTargetsCase(n int, registered bool) (int, *drv.Violation) {
	t := &thWorld{w: ecs.NewWorld(2, 1), what: fmt.Sprintf("%d relation targets with one child table each (registered filter: %v)", n, registered)}
	t.u = t.w.Unsafe()
	world, u := t.w, t.u
	relID := ecs.ComponentID[ct.CR1](world)
	pID := ecs.ComponentID[ct.CP](world)
	qID := ecs.ComponentID[ct.CQ](world)
	tgID := ecs.ComponentID[ct.CT9](world) // marks targets
	var targets, children []ecs.Entity
	for i := 0; i < n; i++ {
		targets = append(targets, u.NewEntity(tgID))
	}
	for i := 0; i < n; i++ {
		c := u.NewEntityRel([]ecs.ID{relID, pID}, ecs.RelID(relID, targets[i]))
		(*ct.CP)(u.Get(c, pID)).X = int64(i + 1)
		children = append(children, c)
	}
	childF := ecs.NewFilter1[ct.CR1](world)
	targetF := ecs.NewFilter1[ct.CT9](world)
	if registered {
		childF.Register()
		targetF.Register()
	}
	check := func(when string, hasQ bool, wantTarget func(i int) ecs.Entity) *drv.Violation {
		t.steps++
		for i, c := range children {
			if !world.Alive(c) {
				return t.fail("%s: child %d is not alive", when, i)
			}
			if got := u.GetRelation(c, relID); got != wantTarget(i) {
				return t.fail("%s: child %d targets %v, expected %v", when, i, got, wantTarget(i))
			}
			if x := (*ct.CP)(u.Get(c, pID)).X; x != int64(i+1) {
				return t.fail("%s: child %d holds value %d, expected %d", when, i, x, i+1)
			}
			if u.Has(c, qID) != hasQ {
				return t.fail("%s: child %d: Has(Q)=%v, expected %v", when, i, !hasQ, hasQ)
			}
		}
		q := childF.Query()
		cnt := q.Count()
		seen := map[ecs.Entity]int{}
		for q.Next() {
			seen[q.Entity()]++
		}
		if cnt != n || len(seen) != n {
			return t.fail("%s: the child filter counts %d and visits %d distinct entities, expected %d", when, cnt, len(seen), n)
		}
		return nil
	}
	own := func(i int) ecs.Entity { return targets[i] }
	if v := check("after creation", false, own); v != nil {
		return t.steps, v
	}
	// batch add over all child tables, with a callback
	calls := 0
	mq := ecs.NewMap1[ct.CQ](world)
	mr := ecs.NewMap1[ct.CR1](world)
	if v := t.try("AddBatchFn over all child tables", func() {
		mq.AddBatchFn(childF.Batch(), func(e ecs.Entity, q *ct.CQ) { calls++; q.V = 7 })
	}); v != nil {
		return t.steps, v
	}
	if calls != n {
		return t.steps, t.fail("AddBatchFn ran its callback %d times for %d selected entities", calls, n)
	}
	if v := check("after AddBatchFn", true, own); v != nil {
		return t.steps, v
	}
	calls = 0
	if v := t.try("RemoveBatch over all child tables", func() { mq.RemoveBatch(childF.Batch(), func(ecs.Entity) { calls++ }) }); v != nil {
		return t.steps, v
	}
	if calls != n {
		return t.steps, t.fail("RemoveBatch ran its callback %d times for %d selected entities", calls, n)
	}
	if v := check("after RemoveBatch", false, own); v != nil {
		return t.steps, v
	}
	// every second half of the children is moved to target 0 in one batch
	// (per-batch target: children of the last target only)
	if v := t.try("SetRelationsBatch(children of the last target -> target 0)", func() {
		mr.SetRelationsBatch(ecs.NewFilter1[ct.CR1](world).Batch(ecs.RelIdx(0, targets[n-1])), nil, ecs.RelIdx(0, targets[0]))
	}); v != nil {
		return t.steps, v
	}
	moved := func(i int) ecs.Entity {
		if i == n-1 {
			return targets[0]
		}
		return targets[i]
	}
	if v := check("after SetRelationsBatch", false, moved); v != nil {
		return t.steps, v
	}
	// all targets die in one call
	calls = 0
	if v := t.try("RemoveEntities(all targets)", func() { world.RemoveEntities(targetF.Batch(), func(ecs.Entity) { calls++ }) }); v != nil {
		return t.steps, v
	}
	if calls != n {
		return t.steps, t.fail("RemoveEntities ran its callback %d times for %d targets", calls, n)
	}
	for i, tg := range targets {
		if world.Alive(tg) {
			return t.steps, t.fail("target %d is still alive after RemoveEntities", i)
		}
	}
	if v := check("after all targets were removed in one call", false, func(int) ecs.Entity { return ecs.Entity{} }); v != nil {
		return t.steps, v
	}
	// the world is still usable: a new target for everybody, then everything is removed
	nt := u.NewEntity(tgID)
	if v := t.try("SetRelationsBatch(all -> new target)", func() {
		mr.SetRelationsBatch(childF.Batch(), nil, ecs.RelIdx(0, nt))
	}); v != nil {
		return t.steps, v
	}
	if v := check("after retargeting all children", false, func(int) ecs.Entity { return nt }); v != nil {
		return t.steps, v
	}
	if v := t.try("RemoveEntities(children)", func() { world.RemoveEntities(childF.Batch(), nil) }); v != nil {
		return t.steps, v
	}
	q := ecs.NewFilter0(world).Query()
	left := q.Count()
	q.Close()
	if left != 1 {
		return t.steps, t.fail("after removing all children %d entities are left, expected 1 (the new target)", left)
	}
	return t.steps, nil
}

// ---------------------------------------------------------------- many archetypes containing one component

// manyArchetypesCase: n archetypes that all contain component A (and n-1 of them also B), one entity each.
func manyArchetypesCase(n int) (int, *drv.Violation) {
	t := &thWorld{w: ecs.NewWorld(1), what: fmt.Sprintf("%d archetypes containing the queried component", n)}
	t.u = t.w.Unsafe()
	world, u := t.w, t.u
	ecs.TypeID(world, thFiller(200)) // component ID 0 is not part of any filter
	aID := ecs.ComponentID[ct.CP](world)
	bID := ecs.ComponentID[ct.CQ](world)
	var fillers []ecs.ID
	nf := 200
	if MaxComps < 256 {
		nf = MaxComps - 4
	}
	for i := 0; i < nf; i++ {
		fillers = append(fillers, ecs.TypeID(world, thFiller(i)))
	}
	var ents []ecs.Entity
	mk := func(ids ...ecs.ID) {
		e := u.NewEntity(ids...)
		(*ct.CP)(u.Get(e, aID)).X = int64(len(ents) + 1)
		ents = append(ents, e)
	}
	mk(aID)
	for i := 0; len(ents) < n && i < nf; i++ {
		mk(aID, bID, fillers[i])
	}
	for i := 0; len(ents) < n && i+1 < nf; i++ {
		mk(aID, bID, fillers[i], fillers[i+1])
	}
	for i := 0; len(ents) < n && i+2 < nf; i++ {
		mk(aID, bID, fillers[i], fillers[i+2])
	}
	if len(ents) != n {
		return t.steps, nil // not enough component IDs in this build
	}
	type qf struct {
		name string
		run  func() (int, map[ecs.Entity]int)
		want int
	}
	collect := func(next func() bool, ent func() ecs.Entity) map[ecs.Entity]int {
		m := map[ecs.Entity]int{}
		k := 0
		for next() {
			m[ent()]++
			k++
			if k > 3*n+8 {
				break
			}
		}
		return m
	}
	fa := ecs.NewFilter1[ct.CP](world)
	fab := ecs.NewFilter2[ct.CP, ct.CQ](world)
	fba := ecs.NewFilter2[ct.CQ, ct.CP](world)
	fc := ecs.NewFilter1[ct.CP](world).Register()
	qs := []qf{
		{"Filter1[A]", func() (int, map[ecs.Entity]int) { q := fa.Query(); c := q.Count(); return c, collect(q.Next, q.Entity) }, n},
		{"Filter2[A,B]", func() (int, map[ecs.Entity]int) {
			q := fab.Query()
			c := q.Count()
			return c, collect(q.Next, q.Entity)
		}, n - 1},
		{"Filter2[B,A]", func() (int, map[ecs.Entity]int) {
			q := fba.Query()
			c := q.Count()
			return c, collect(q.Next, q.Entity)
		}, n - 1},
		{"registered Filter1[A]", func() (int, map[ecs.Entity]int) { q := fc.Query(); c := q.Count(); return c, collect(q.Next, q.Entity) }, n},
		{"UnsafeFilter(A)", func() (int, map[ecs.Entity]int) {
			q := ecs.NewUnsafeFilter(world, aID).Query()
			c := q.Count()
			return c, collect(q.Next, q.Entity)
		}, n},
		{"UnsafeFilter(B,A)", func() (int, map[ecs.Entity]int) {
			q := ecs.NewUnsafeFilter(world, bID, aID).Query()
			c := q.Count()
			return c, collect(q.Next, q.Entity)
		}, n - 1},
	}
	for _, q := range qs {
		t.steps++
		var cnt int
		var seen map[ecs.Entity]int
		if tryDo(func() { cnt, seen = q.run() }) {
			return t.steps, t.fail("%s: query panicked: %v", q.name, lastPanic)
		}
		if cnt != q.want || len(seen) != q.want {
			return t.steps, t.fail("%s: Count()=%d, %d distinct entities visited, expected %d", q.name, cnt, len(seen), q.want)
		}
		for e, k := range seen {
			if k != 1 {
				return t.steps, t.fail("%s: entity %v visited %d times", q.name, e, k)
			}
		}
	}
	// batch removal over all of them through the un-cached filter
	calls := 0
	if v := t.try("RemoveEntities(Filter2[A,B])", func() { world.RemoveEntities(fab.Batch(), func(ecs.Entity) { calls++ }) }); v != nil {
		return t.steps, v
	}
	if calls != n-1 {
		return t.steps, t.fail("RemoveEntities over %d archetypes ran its callback %d times", n-1, calls)
	}
	q := ecs.NewFilter0(world).Query()
	left := q.Count()
	q.Close()
	if left != 1 || !world.Alive(ents[0]) {
		return t.steps, t.fail("after the batch removal %d entities are left, expected 1", left)
	}
	return t.steps, nil
}

// ---------------------------------------------------------------- custom event types

// eventTypesCase: all custom event types an EventRegistry hands out can be observed and emitted.
func eventTypesCase() (int, *drv.Violation) {
	t := &thWorld{w: ecs.NewWorld(2), what: "custom event types"}
	world := t.w
	var reg ecs.EventRegistry
	var types []ecs.EventType
	seen := map[ecs.EventType]bool{}
	for i := 0; i < 400; i++ {
		var tp ecs.EventType
		if tryDo(func() { tp = reg.NewEventType() }) {
			break
		}
		if seen[tp] {
			return t.steps, t.fail("NewEventType returned %d twice", tp)
		}
		seen[tp] = true
		types = append(types, tp)
	}
	t.steps++
	if len(types) != 249 {
		return t.steps, t.fail("the registry handed out %d custom event types, documented are 249", len(types))
	}
	for _, tp := range types {
		for _, b := range []ecs.EventType{ecs.OnCreateEntity, ecs.OnRemoveEntity, ecs.OnAddComponents, ecs.OnRemoveComponents, ecs.OnSetComponents, ecs.OnAddRelations, ecs.OnRemoveRelations} {
			if tp == b {
				return t.steps, t.fail("custom event type %d equals a built-in event type", tp)
			}
		}
	}
	e := ecs.NewMap1[ct.CP](world).NewEntity(&ct.CP{X: 1})
	fired := map[ecs.EventType]int{}
	for _, k := range []int{0, 1, 63, 64, 127, 128, 246, 247, 248} {
		tp := types[k]
		ecs.Observe(tp).For(ecs.C[ct.CP]()).Do(func(ecs.Entity) { fired[tp]++ }).Register(world)
	}
	for k, tp := range types {
		t.steps++
		if tryDo(func() { world.Event(tp).For(ecs.C[ct.CP]()).Emit(e) }) {
			return t.steps, t.fail("emitting custom event type #%d (value %d) panicked: %v", k+1, tp, lastPanic)
		}
	}
	for _, k := range []int{0, 1, 63, 64, 127, 128, 246, 247, 248} {
		if fired[types[k]] != 1 {
			return t.steps, t.fail("the observer of custom event type #%d fired %d times for one emit", k+1, fired[types[k]])
		}
	}
	if len(fired) != 9 {
		return t.steps, t.fail("%d observers fired, 9 are registered", len(fired))
	}
	return t.steps, nil
}

// ---------------------------------------------------------------- many observers on one event type

// manyObserversCase: n observers on one event type; the observers at the given positions are unregistered;
// one event must reach exactly the others.
func manyObserversCase(n int, remove []int) (int, *drv.Violation) {
	t := &thWorld{w: ecs.NewWorld(2), what: fmt.Sprintf("%d observers on one event type, unregistering positions %v", n, remove)}
	world := t.w
	fired := make([]int, n)
	obs := make([]*ecs.Observer, n)
	for i := 0; i < n; i++ {
		i := i
		o := ecs.Observe(ecs.OnCreateEntity).Do(func(ecs.Entity) { fired[i]++ })
		if i%3 == 1 {
			o = o.With(ecs.C[ct.CP]())
		}
		obs[i] = o.Register(world)
	}
	gone := map[int]bool{}
	mp := ecs.NewMap1[ct.CP](world)
	step := func(when string) *drv.Violation {
		t.steps++
		for i := range fired {
			fired[i] = 0
		}
		if tryDo(func() { mp.NewEntity(&ct.CP{X: 1}) }) {
			return t.fail("%s: creating an entity panicked: %v", when, lastPanic)
		}
		for i := range fired {
			want := 1
			if gone[i] {
				want = 0
			}
			if fired[i] != want {
				return t.fail("%s: observer %d fired %d times for one created entity, expected %d", when, i, fired[i], want)
			}
		}
		return nil
	}
	if v := step("all registered"); v != nil {
		return t.steps, v
	}
	for _, k := range remove {
		if k < 0 || k >= n || gone[k] {
			continue
		}
		if tryDo(func() { obs[k].Unregister(world) }) {
			return t.steps, t.fail("unregistering observer %d panicked: %v", k, lastPanic)
		}
		gone[k] = true
		if v := step(fmt.Sprintf("after unregistering observer %d", k)); v != nil {
			return t.steps, v
		}
	}
	// register them again (they are appended at the end)
	for _, k := range remove {
		if k < 0 || k >= n || !gone[k] {
			continue
		}
		if tryDo(func() { obs[k].Register(world) }) {
			return t.steps, t.fail("registering observer %d again panicked: %v", k, lastPanic)
		}
		delete(gone, k)
	}
	if v := step("after registering them again"); v != nil {
		return t.steps, v
	}
	if st := world.Stats(); st.Observers != n {
		return t.steps, t.fail("Stats().Observers=%d, %d are registered", st.Observers, n)
	}
	return t.steps, nil
}

func manyObserversSweep() (int, int, []*drv.Violation) {
	var fs []func() (int, *drv.Violation)
	for _, n := range []int{2, 63, 64, 65, 66, 127, 128, 129, 255, 256, 257, 258, 300} {
		for _, rm := range [][]int{{0}, {n - 1}, {n / 2, 0}, {n - 2, n - 1}, {255, 256}, {256, 0, n - 1}, {257, 64}} {
			n, rm := n, rm
			fs = append(fs, func() (int, *drv.Violation) { return manyObserversCase(n, rm) })
		}
	}
	return runCases(fs...)
}

// ---------------------------------------------------------------- running the sweeps

type thSweep struct {
	name string
	run  func() (cases, steps int, found []*drv.Violation)
}

func runCases(fs ...func() (int, *drv.Violation)) (cases, steps int, found []*drv.Violation) {
	for _, f := range fs {
		cases++
		var s int
		var v *drv.Violation
		func() {
			defer func() {
				if r := recover(); r != nil {
					v = viol("threshold", 0, "unexpected panic in a threshold case: %v", r)
				}
			}()
			s, v = f()
		}()
		steps += s
		if v != nil {
			found = append(found, v)
		}
	}
	return
}

func wideSweep() (int, int, []*drv.Violation) {
	var fs []func() (int, *drv.Violation)
	for _, r := range []int{1, 2, 7, 8, 9, 10} {
		for _, w := range []int{0, 1, 6, 7, 8, 14, 15, 16, 17, 18, 31, 32, 33, 40} {
			if r+w+2 > MaxComps {
				continue
			}
			r, w := r, w
			fs = append(fs, func() (int, *drv.Violation) { return wideCase(w, r, true) }, func() (int, *drv.Violation) { return wideCase(w, r, false) })
		}
	}
	return runCases(fs...)
}

func manyTargetsSweep() (int, int, []*drv.Violation) {
	var fs []func() (int, *drv.Violation)
	for _, n := range []int{2, 15, 16, 17, 31, 32, 33, 34, 64, 65, 255, 256, 257, 258} {
		for _, reg := range []bool{false, true} {
			n, reg := n, reg
			fs = append(fs, func() (int, *drv.Violation) { return manyTargetsCase(n, reg) })
		}
	}
	return runCases(fs...)
}

func manyArchetypesSweep() (int, int, []*drv.Violation) {
	var fs []func() (int, *drv.Violation)
	for _, n := range []int{2, 15, 16, 17, 31, 32, 33, 63, 64, 65, 127, 128, 129, 130, 254, 255, 256, 257, 300} {
		n := n
		fs = append(fs, func() (int, *drv.Violation) { return manyArchetypesCase(n) })
	}
	return runCases(fs...)
}

// addThreshold chains a threshold sweep to a check's Special body. In sharded checks it runs in shard 0.
func addThreshold(chk *Check, name string, sweep func() (int, int, []*drv.Violation), note string) {
	prev := chk.Special
	sharded := chk.SpecialSharded
	chk.Special = func(tier Tier, rep *engine.Report) error {
		var err error
		if prev != nil {
			err = prev(tier, rep)
		}
		if sharded && Shard != 0 {
			return err
		}
		cases, steps, found := sweep()
		rep.Histories += int64(cases)
		rep.Transitions += int64(steps)
		rep.States += int64(cases)
		rep.NonTrivial += int64(cases)
		rep.PerConfig = append(rep.PerConfig, fmt.Sprintf("%s %s: cases=%d checked steps=%d", chk.ID, name, cases, steps))
		for _, v := range found {
			rep.Found = append(rep.Found, engine.Found{Scenario: chk.ID + "-" + name, V: *v, OpKind: name})
		}
		return err
	}
	chk.Rule += "; " + note
}

func init() {
	// debugging aid: `check --sub threshold` runs all threshold sweeps of this build once
	SubModes["threshold"] = func(args []string) *SubResult {
		r := &SubResult{}
		for _, sw := range []func() (int, int, []*drv.Violation){wideSweep, manyTargetsSweep, manyArchetypesSweep, manyObserversSweep, nestedTwinSweep,
			func() (int, int, []*drv.Violation) { return runCases(eventTypesCase) }} {
			c, s, f := sw()
			r.Cases += c
			r.Steps += s
			for _, v := range f {
				r.Violations = append(r.Violations, *v)
			}
		}
		return r
	}
}

// ---------------------------------------------------------------- C11: payload-carrying relation components, type flags

// relPayloadCase: a relation component with `size` payload bytes that is the largest (or only) component of
// its archetype; a vacated or reset row must read as zero when it is re-used without initialisation.
func relPayloadCase(size int, withFiller bool) (int, *drv.Violation) {
	t := &thWorld{w: ecs.NewWorld(1), what: fmt.Sprintf("relation component with %d payload bytes (with a smaller plain component: %v)", size, withFiller)}
	t.u = t.w.Unsafe()
	world, u := t.w, t.u
	rid := ecs.TypeID(world, thRel(size-1))
	ids := []ecs.ID{rid}
	if withFiller {
		ids = append(ids, ecs.TypeID(world, thFiller(2)))
	}
	tg := world.NewEntity()
	fill := func(e ecs.Entity, b byte) {
		p := u.Get(e, rid)
		for i := 0; i < size; i++ {
			*(*byte)(unsafe.Add(p, i)) = b
		}
	}
	zero := func(when string, e ecs.Entity) *drv.Violation {
		t.steps++
		p := u.Get(e, rid)
		for i := 0; i < size; i++ {
			if b := *(*byte)(unsafe.Add(p, i)); b != 0 {
				return t.fail("%s: payload byte %d of a component created without a value reads %#x, expected 0", when, i, b)
			}
		}
		return nil
	}
	var es []ecs.Entity
	for i := 0; i < 3; i++ {
		e := u.NewEntityRel(ids, ecs.RelID(rid, tg))
		fill(e, 0x55)
		es = append(es, e)
	}
	// swap-remove of the first row vacates the last one
	if v := t.try("RemoveEntity(first row)", func() { world.RemoveEntity(es[0]) }); v != nil {
		return t.steps, v
	}
	e4 := u.NewEntityRel(ids, ecs.RelID(rid, tg))
	if v := zero("after a swap-remove", e4); v != nil {
		return t.steps, v
	}
	fill(e4, 0x66)
	// the whole table is reset (batch removal), then re-used
	if v := t.try("RemoveEntities(all children)", func() { world.RemoveEntities(ecs.NewFilter0(world).Without(ecs.C[ct.CT9]()).Batch(), nil) }); v != nil {
		return t.steps, v
	}
	tg = world.NewEntity()
	for i := 0; i < 3; i++ {
		e := u.NewEntityRel(ids, ecs.RelID(rid, tg))
		if v := zero("after the table was emptied by a batch removal", e); v != nil {
			return t.steps, v
		}
		fill(e, 0x77)
	}
	// the target dies: the rows move to the zero-target table and back
	if v := t.try("RemoveEntity(target)", func() { world.RemoveEntity(tg) }); v != nil {
		return t.steps, v
	}
	e5 := u.NewEntityRel(ids, ecs.RelID(rid, ecs.Entity{}))
	if v := zero("in the zero-target table", e5); v != nil {
		return t.steps, v
	}
	return t.steps, nil
}

type ptrComp struct {
	P *ct.Big
	N int64
}

// staleFlagsCase: a registration rejected on a locked world must not leave type flags behind for the type
// that is registered next (a pointer-bearing one): its values must survive moves and collections.
func staleFlagsCase(plainFirst bool) (int, *drv.Violation) {
	t := &thWorld{w: ecs.NewWorld(1), what: fmt.Sprintf("pointer-bearing type registered right after a rejected registration (rejected type pointer-free: %v)", plainFirst)}
	t.u = t.w.Unsafe()
	world, u := t.w, t.u
	other := ecs.ComponentID[ct.CP](world)
	world.NewEntity()
	q := ecs.NewFilter0(world).Query()
	rejected := thFiller(90)
	if !plainFirst {
		rejected = thPtrFiller(90)
	}
	t.steps++
	if !tryDo(func() { ecs.TypeID(world, rejected) }) {
		q.Close()
		return t.steps, t.fail("registering a type on a locked world did not panic")
	}
	q.Close()
	m := ecs.NewMap1[ptrComp](world) // registered now, presumably with the ID of the rejected type
	pid := ecs.ComponentID[ptrComp](world)
	var es []ecs.Entity
	for i := 0; i < 6; i++ {
		es = append(es, m.NewEntity(&ptrComp{P: &ct.Big{int64(100 + i), 1, 2, 3}, N: int64(i)}))
	}
	check := func(when string) *drv.Violation {
		t.steps++
		for i, e := range es {
			p := (*ptrComp)(u.Get(e, pid))
			if p.P == nil || p.P[0] != int64(100+i) || p.N != int64(i) {
				return t.fail("%s: the pointer-bearing component of entity %d no longer refers to its data", when, i)
			}
		}
		return nil
	}
	for round := 0; round < 3; round++ {
		for _, e := range es {
			u.Add(e, other)
		}
		runtime.GC()
		junk := make([]*ct.Big, 64) // re-use freed memory
		for i := range junk {
			junk[i] = &ct.Big{-1, -1, -1, -1}
		}
		if v := check(fmt.Sprintf("round %d, after moving to another archetype and a collection", round)); v != nil {
			return t.steps, v
		}
		for _, e := range es {
			u.Remove(e, other)
		}
		runtime.GC()
		if v := check(fmt.Sprintf("round %d, after moving back and a collection", round)); v != nil {
			return t.steps, v
		}
		runtime.KeepAlive(junk)
	}
	return t.steps, nil
}

func memorySweep() (int, int, []*drv.Violation) {
	var fs []func() (int, *drv.Violation)
	for _, size := range []int{1, 7, 8, 9, 16, 24, 33, 64, 100} {
		for _, wf := range []bool{false, true} {
			size, wf := size, wf
			fs = append(fs, func() (int, *drv.Violation) { return relPayloadCase(size, wf) })
		}
	}
	fs = append(fs, func() (int, *drv.Violation) { return staleFlagsCase(true) }, func() (int, *drv.Violation) { return staleFlagsCase(false) })
	return runCases(fs...)
}

func init() {
	// run in a process of its own (a heap corrupted by the implementation kills the process)
	SubModes["C11mem"] = func(args []string) *SubResult {
		c, s, f := memorySweep()
		r := &SubResult{Cases: c, Steps: s}
		for _, v := range f {
			r.Violations = append(r.Violations, *v)
		}
		return r
	}
}
