package props

import (
	"verif/mc/api"
	"verif/mc/ct"
	"verif/mc/drv"
	"verif/mc/engine"
	"verif/mc/model"
)

// Large configurations. The bounded histories of the other scenarios start from small worlds; here a long
// deterministic prelude first brings the world across the size thresholds of the implementation (table rows
// beyond 64 and several capacity doublings, more than 32 tables in one batch, more than 128 archetypes and
// graph nodes, more than 64 cached filters and observers, many recycling and Reset cycles), and all
// histories up to a small depth are explored from there with the same alphabets and oracles.

func repeatOps(n int, ops ...model.Op) []model.Op {
	var out []model.Op
	for i := 0; i < n; i++ {
		out = append(out, ops...)
	}
	return out
}

// scaleRows: two tables with 66 and 67 rows at initial capacity 1 (7 doublings), one entity in a third.
func scaleRowsPrelude(path model.Path) []model.Op {
	nA := model.Op{K: model.OpNew, Path: path, Cs: ct.Of(ct.P)}
	nAB := model.Op{K: model.OpNew, Path: path, Cs: ct.Of(ct.P, ct.Q), Init: model.InitFn}
	pre := repeatOps(66, nA)
	pre = append(pre, repeatOps(67, nAB)...)
	// holes: remove a few in the middle so that swap-removes have happened
	pre = append(pre, model.Op{K: model.OpRemoveEntity, E: 10}, model.Op{K: model.OpRemoveEntity, E: 80}, nA)
	return pre
}

func scaleRows(depth int) []*engine.Scenario {
	var out []*engine.Scenario
	one := []api.RelMode{api.RelByIdx}
	u := []ct.Comp{ct.P, ct.Q, ct.T9}
	for _, path := range []model.Path{model.PathMapN, model.PathUnsafe} {
		o := plainOpts{a: ct.P, b: ct.Q, c: ct.NumComps, path: path, maxAlive: 140, batch: path == model.PathMapN, copyOp: true, shrink: true}
		sc := plainScenario("scale-rows/"+path.String(), o, cfgs([]int{1}, []int{0}, one, u), depth, worldOracle, [][]model.Op{scaleRowsPrelude(model.PathMapN)})
		out = append(out, sc)
	}
	// pointer-bearing and large components, batch moves of > 64 rows
	o := plainOpts{a: ct.S, b: ct.L, c: ct.NumComps, path: model.PathMapN, maxAlive: 140, batch: true, shrink: true, reset: true}
	nS := model.Op{K: model.OpNew, Path: model.PathMapN, Cs: ct.Of(ct.S)}
	nSL := model.Op{K: model.OpNew, Path: model.PathMapN, Cs: ct.Of(ct.S, ct.L), Init: model.InitFn}
	pre := append(repeatOps(70, nS), repeatOps(3, nSL)...)
	out = append(out, plainScenario("scale-rows/pointer-bearing", o, cfgs([]int{1}, []int{0}, one, []ct.Comp{ct.S, ct.L, ct.Z}), depth, worldOracle, [][]model.Op{pre}))
	return out
}

// scaleTargets: 36 relation targets with one child table each (more tables than the pooled scratch slices
// hold), two of them with further children; batch operations then touch > 32 tables at once.
func scaleTargetsPrelude(path model.Path, n int) []model.Op {
	newP := model.Op{K: model.OpNew, Path: path, Cs: ct.Of(ct.P)}
	pre := repeatOps(n, newP)
	for t := 0; t < n; t++ {
		pre = append(pre, model.Op{K: model.OpNew, Path: path, Cs: ct.Of(ct.P, ct.R1), T: rel(ct.R1, t)})
	}
	pre = append(pre,
		model.Op{K: model.OpNew, Path: path, Cs: ct.Of(ct.P, ct.R1), T: rel(ct.R1, 0)},
		model.Op{K: model.OpNew, Path: path, Cs: ct.Of(ct.P, ct.R1), T: rel(ct.R1, 1)},
		model.Op{K: model.OpNew, Path: path, Cs: ct.Of(ct.R1, ct.R2), T: []model.RelT{{C: ct.R1, T: 1}, {C: ct.R2, T: 2}}},
	)
	return pre
}

func scaleTargets(depth int, or drv.Oracle) []*engine.Scenario {
	var out []*engine.Scenario
	one := []api.RelMode{api.RelByIdx}
	for _, path := range []model.Path{model.PathMapN, model.PathUnsafe} {
		o := relOpts{path: path, maxAlive: 90, batch: true, two: true, shrink: true, nTargets: 3, fixed: true}
		or := or
		or.Family = relFamily()
		sc := &engine.Scenario{
			Name: "scale-targets/" + path.String(), Cfgs: cfgs([]int{1}, []int{0}, one, relUniverse), Filters: relFilters(), Slots: 1,
			Oracle:   or,
			Preludes: [][]model.Op{scaleTargetsPrelude(model.PathMapN, 36), append(scaleTargetsPrelude(model.PathMapN, 36), model.Op{K: model.OpRegister, F: 0}, model.Op{K: model.OpRegister, F: 2})},
			Alphabet: relAlphabet(o), Depth: depth,
		}
		out = append(out, sc)
	}
	return out
}

// scaleArchetypes: 140 filler archetypes (more than the 128 pre-allocated archetypes, tables and graph nodes).
func scaleArchetypes(depth int) *engine.Scenario {
	u := []ct.Comp{ct.P, ct.Q, ct.T9}
	cf := cfgs([]int{1}, []int{0}, []api.RelMode{api.RelByIdx}, u)
	var cfs []drv.Config
	for _, pad := range []int{120, 123, 124, 125, 126, 127, 140} {
		c := cf[0]
		c.Pad = pad
		cfs = append(cfs, c)
	}
	o := worldOracle
	o.Family = plainFamily(ct.P, ct.Q)
	o.Stats = true
	return &engine.Scenario{
		Name: "scale-archetypes", Cfgs: cfs, Filters: plainFilters(ct.P, ct.Q), Slots: 1, Oracle: o,
		Alphabet: graphAlphabet(u, 3), Depth: depth,
	}
}

// scaleFilters: 70 registered filters (cache ids beyond 64), most of them unregistered again in the prelude
// of the second variant; the plain alphabet plus Register/Unregister of the first, a middle and the last one.
func scaleFilters(depth int) *engine.Scenario {
	var fs []model.FilterSpec
	sets := []ct.Set{ct.Of(ct.P), ct.Of(ct.Q), ct.Of(ct.P, ct.Q), ct.Of(ct.T9), ct.Of(ct.P, ct.T9), ct.Of(ct.Q, ct.T9), ct.Of(ct.P, ct.Q, ct.T9)}
	for i := 0; len(fs) < 70; i++ {
		s := sets[i%len(sets)]
		spec := model.FilterSpec{With: s}
		switch (i / len(sets)) % 5 {
		case 1:
			spec.Exclusive = true
		case 2:
			spec.Without = ct.Of(ct.P, ct.Q, ct.T9) &^ s
		case 3:
			spec = model.FilterSpec{Params: s.List()}
		case 4:
			spec = model.FilterSpec{Params: s.List(), Without: ct.Of(ct.T9) &^ s}
		}
		fs = append(fs, spec)
	}
	var regAll, unregMost []model.Op
	for i := range fs {
		regAll = append(regAll, model.Op{K: model.OpRegister, F: i})
	}
	for i := range fs {
		if i%9 != 0 {
			unregMost = append(unregMost, model.Op{K: model.OpUnregister, F: i})
		}
	}
	nP := model.Op{K: model.OpNew, Path: model.PathMapN, Cs: ct.Of(ct.P)}
	nPQ := model.Op{K: model.OpNew, Path: model.PathMapN, Cs: ct.Of(ct.P, ct.Q)}
	base := []model.Op{nP, nPQ}
	p1 := append(append([]model.Op{}, base...), regAll...)
	p2 := append(append([]model.Op{}, p1...), unregMost...)
	p2 = append(p2, regAll[1], regAll[2]) // re-register two after the mass unregistration
	o := plainOpts{a: ct.P, b: ct.Q, c: ct.T9, path: model.PathMapN, maxAlive: 5, reset: true, shrink: true}
	alpha := concat(plainAlphabet(o), func(m *model.Model) []model.Op { return regOps(m, []int{0, 35, 69}) })
	return &engine.Scenario{
		Name: "scale-filters", Cfgs: cfgs([]int{1}, []int{0}, []api.RelMode{api.RelByIdx}, []ct.Comp{ct.P, ct.Q, ct.T9}), Filters: fs, Slots: 1,
		Oracle:   drv.Oracle{World: true, Filters: true, Lock: true, Stats: true},
		Preludes: [][]model.Op{p1, p2}, Alphabet: alpha, Depth: depth,
	}
}

// scaleObservers: 70 registered observers over 3 components and all event types.
func scaleObservers(depth int) *engine.Scenario {
	var obs []model.ObsSpec
	sets := []ct.Set{ct.Of(ct.P), ct.Of(ct.Q), ct.Of(ct.P, ct.Q), 0}
	evs := []int{model.EvCreateEntity, model.EvRemoveEntity, model.EvAddComponents, model.EvRemoveComponents, model.EvSetComponents}
	for i := 0; len(obs) < 70; i++ {
		spec := model.ObsSpec{Event: evs[i%len(evs)], For: sets[(i/len(evs))%len(sets)]}
		switch (i / (len(evs) * len(sets))) % 4 {
		case 1:
			spec.With = ct.Of(ct.T9)
		case 2:
			spec.Without = ct.Of(ct.T9)
		case 3:
			spec.With = ct.Of(ct.P)
			spec.For = spec.For &^ ct.Of(ct.P)
		}
		obs = append(obs, spec)
	}
	var pre []model.Op
	for i := range obs {
		pre = append(pre, model.Op{K: model.OpObserve, O: i})
	}
	p2 := append([]model.Op{}, pre...)
	for i := range obs {
		if i%7 != 0 {
			p2 = append(p2, model.Op{K: model.OpUnobserve, O: i})
		}
	}
	p2 = append(p2, model.Op{K: model.OpObserve, O: 1}, model.Op{K: model.OpObserve, O: 69})
	o := plainOpts{a: ct.P, b: ct.Q, c: ct.T9, path: model.PathMapN, maxAlive: 4, batch: true}
	alpha := concat(plainAlphabet(o), func(m *model.Model) []model.Op {
		return []model.Op{{K: model.OpUnobserve, O: 0}, {K: model.OpUnobserve, O: 63}, {K: model.OpUnobserve, O: 69}, {K: model.OpObserve, O: 3}}
	})
	return &engine.Scenario{
		Name: "scale-observers", Cfgs: cfgs([]int{1}, []int{0}, []api.RelMode{api.RelByIdx}, []ct.Comp{ct.P, ct.Q, ct.T9}), Filters: plainFilters(ct.P, ct.Q), Obs: obs, Slots: 1,
		Oracle:   drv.Oracle{World: true, Events: true, Lock: true, Stats: true},
		Preludes: [][]model.Op{pre, p2}, Alphabet: alpha, Depth: depth,
	}
}

// scaleRecycle: 70 create/remove cycles on the same ids (generations up to 70), 40 recycled ids waiting, and
// three Reset cycles before; then the pool alphabet.
func scaleRecycle(depth int) *engine.Scenario {
	var pre []model.Op
	n := 0
	cycle := func(k int) {
		for i := 0; i < k; i++ {
			pre = append(pre, model.Op{K: model.OpNewPlain}, model.Op{K: model.OpRemoveEntity, E: n})
			n++
		}
	}
	cycle(70)
	for i := 0; i < 40; i++ {
		pre = append(pre, model.Op{K: model.OpNewPlain})
	}
	for i := 0; i < 40; i++ {
		pre = append(pre, model.Op{K: model.OpRemoveEntity, E: n + (i*7)%40})
	}
	n += 40
	pre2 := []model.Op{}
	for r := 0; r < 3; r++ {
		pre2 = append(pre2, model.Op{K: model.OpNewPlain}, model.Op{K: model.OpNew, Path: model.PathMap, Cs: ct.Of(ct.P)}, model.Op{K: model.OpReset})
	}
	return &engine.Scenario{
		Name: "scale-recycle", Cfgs: cfgs([]int{1, 8}, []int{0}, []api.RelMode{api.RelByIdx}, []ct.Comp{ct.P}),
		Filters: []model.FilterSpec{{}, {Params: []ct.Comp{ct.P}}}, Slots: 1,
		Oracle:   drv.Oracle{World: true, Pool: true, Lock: true, Stats: true},
		Preludes: [][]model.Op{pre, pre2}, Alphabet: poolAlphabet(4, true), Depth: depth,
	}
}
