package props

import (
	"verif/mc/api"
	"verif/mc/ct"
	"verif/mc/drv"
	"verif/mc/engine"
	"verif/mc/model"
)

func resetObservers() []model.ObsSpec {
	var out []model.ObsSpec
	for ev := 0; ev < model.NumEvents; ev++ {
		out = append(out, model.ObsSpec{Event: ev})
	}
	out = append(out, model.ObsSpec{Event: model.EvCreateEntity, Params: []ct.Comp{ct.P}})
	return out
}

func init() {
	Registry["C16"] = func(t Tier) *Check {
		d1, d2 := 1, 3
		if t == Thorough {
			d1, d2 = 2, 3
		}
		obs := resetObservers()
		u := relUniverse
		filters := relFilters()
		relA := relAlphabet(relOpts{path: model.PathMapN, maxAlive: 5, batch: true, nTargets: 2})
		small := func(m *model.Model) []model.Op {
			var ops []model.Op
			if al := m.Alive(); len(al) > 0 {
				ops = append(ops, model.Op{K: model.OpRemoveEntity, E: al[0]}, model.Op{K: model.OpRemoveEntity, E: al[len(al)-1]})
			}
			ops = append(ops,
				model.Op{K: model.OpNew, Path: model.PathMapN, Cs: ct.Of(ct.P, ct.R1), T: rel(ct.R1, model.ZeroTarget)},
				model.Op{K: model.OpShrink},
				model.Op{K: model.OpOpen, F: 0, Q: 0}, model.Op{K: model.OpClose, Q: 0},
				model.Op{K: model.OpResAdd, N: 1}, model.Op{K: model.OpResRemove, N: 0},
			)
			ops = append(ops, regOps(m, []int{0, 3})...)
			for o := range obs {
				if o == model.EvRemoveRelations || o == model.EvCreateEntity || o == model.EvCustom {
					if m.ObsReg[o] {
						ops = append(ops, model.Op{K: model.OpUnobserve, O: o})
					} else {
						ops = append(ops, model.Op{K: model.OpObserve, O: o})
					}
				}
			}
			return ops
		}
		after := func(m *model.Model) []model.Op {
			var ops []model.Op
			for o := range obs {
				if !m.ObsReg[o] && (o == model.EvRemoveRelations || o == model.EvCreateEntity || o == model.EvAddRelations || o == model.EvRemoveEntity || o == len(obs)-1) {
					ops = append(ops, model.Op{K: model.OpObserve, O: o})
				}
			}
			ops = append(ops, regOps(m, []int{0, 3})...)
			if m.NumAlive() == 0 {
				// components created without a value must read as zero whatever the tables held before the Reset
				ops = append(ops,
					model.Op{K: model.OpNew, Path: model.PathMapN, Cs: ct.Of(ct.P), Init: model.InitNil},
					model.Op{K: model.OpNewBatch, Path: model.PathMapN, Cs: ct.Of(ct.P), N: 3, Init: model.InitNil},
				)
			}
			ops = append(ops, model.Op{K: model.OpResAdd, N: 0}, model.Op{K: model.OpResAdd, N: 1}, model.Op{K: model.OpEmit, E: model.ZeroTarget, N: 0}, model.Op{K: model.OpStats})
			ops = append(ops, queryOps(m, []int{0}, nil)...)
			return ops
		}
		total := d1 + 1 + d2
		alpha := func(m *model.Model) []model.Op {
			if m.Epoch == 0 {
				// before the Reset: short H1, then Reset
				ops := []model.Op{{K: model.OpReset}}
				if m.Locked() {
					return queryOps(m, nil, nil)
				}
				return validOnly(m, append(ops, small(m)...))
			}
			return validOnly(m, append(relA(m), after(m)...))
		}
		_ = total
		// rich preludes
		var reg []model.Op
		for i := range obs {
			reg = append(reg, model.Op{K: model.OpObserve, O: i})
		}
		nP := model.Op{K: model.OpNew, Path: model.PathMapN, Cs: ct.Of(ct.P)}
		child := func(t int) model.Op {
			return model.Op{K: model.OpNew, Path: model.PathMapN, Cs: ct.Of(ct.P, ct.R1), T: rel(ct.R1, t)}
		}
		rich := append(append([]model.Op{}, reg...),
			nP, nP, child(0), child(1), child(0),
			model.Op{K: model.OpNew, Path: model.PathMapN, Cs: ct.Of(ct.R1, ct.R2), T: []model.RelT{{C: ct.R1, T: 0}, {C: ct.R2, T: 1}}},
			model.Op{K: model.OpRegister, F: 0}, model.Op{K: model.OpRegister, F: 2}, model.Op{K: model.OpRegister, F: 3},
			model.Op{K: model.OpResAdd, N: 0}, model.Op{K: model.OpResAdd, N: 2},
			model.Op{K: model.OpRemoveEntity, E: 3}, model.Op{K: model.OpShrink}, // a freed relation table
			model.Op{K: model.OpRemoveEntity, E: 4}, // an empty, not yet freed table; recycled ids
			child(1),
			// a non-relation archetype created after the relation archetype got several tables
			// (archetype ids and table ids no longer coincide), populated at the time of the Reset
			model.Op{K: model.OpNew, Path: model.PathMapN, Cs: ct.Of(ct.P, ct.Q)}, model.Op{K: model.OpNew, Path: model.PathMapN, Cs: ct.Of(ct.P, ct.Q)},
			model.Op{K: model.OpOpen, F: 1, Q: 0}, model.Op{K: model.OpNext, Q: 0}, model.Op{K: model.OpClose, Q: 0},
		)
		lean := []model.Op{{K: model.OpObserve, O: model.EvRemoveRelations}, nP, child(0)}
		only6 := []model.Op{{K: model.OpObserve, O: model.EvAddRelations}, {K: model.OpObserve, O: model.EvCustom2}, nP, child(0), {K: model.OpRegister, F: 0}}
		sc := &engine.Scenario{
			Name: "C16-reset", Cfgs: cfgs([]int{1}, []int{0}, []api.RelMode{api.RelByIdx}, u), Filters: filters, Obs: obs, Slots: 1,
			Oracle: drv.Oracle{World: true, Typed: true, Filters: true, Family: relFamily()[:6], Lock: true, Events: true, Stats: true, Pool: true, Res: true},
			Preludes: [][]model.Op{rich, lean, only6, nil,
				// a table of 71 rows (column resets above the 64-row fast path) and one relation table
				append(append([]model.Op{}, lean...), repeatOps(70, nP)...),
				append(append([]model.Op{}, rich...), model.Op{K: model.OpReset}, model.Op{K: model.OpShrink}),
				append(append([]model.Op{}, lean...), model.Op{K: model.OpReset}, model.Op{K: model.OpShrink}, model.Op{K: model.OpNew, Path: model.PathMapN, Cs: ct.Of(ct.P)}),
			},
			Alphabet: alpha, Depth: total,
			NonTrivial: func(x *drv.World) bool { return x.M.Epoch > 0 },
		}
		if t == Thorough {
			sc.Cfgs = cfgs([]int{1, 2}, []int{0}, []api.RelMode{api.RelByIdx}, u)
		}
		return &Check{ID: "C16", Scenarios: []*engine.Scenario{sc},
			Rule:   "histories H1 (<=1 quick / <=2 thorough operations: removals, Shrink, query open/close, filter and observer (un)registration, resources) after 5 preludes (a table of 71 rows; rich: observers of all 7+2 event types, active/empty/freed relation tables, three registered filters, resources, recycled ids, used queries; OnRemoveRelations observer only; high event ids only; empty), then Reset, then all histories H2 up to depth 3 over the relation + batch alphabet with re-registration of the same observers and filters, resources, queries, Emit and Stats; oracle in every state after the Reset: no entities/resources/cached filters/observers, unlocked, no pre-Reset observer fires (event multiset), full model comparison incl. filter family, pool counts and Stats invariants; non-trivial = state after a Reset",
			Assume: []string{"equivalence with a fresh world is judged through the reference model (a fresh model after Reset), not by a second real world"},
		}
	}
}
