package props

import (
	"fmt"

	"github.com/mlange-42/ark/ecs"

	"verif/mc/ct"
	"verif/mc/drv"
)

// Nested twin worlds (C12): two worlds A and B get the same sequence of operations, but B's k-th
// operation runs INSIDE a callback of A's k-th operation (a system working on one world may drive another
// one). Both must end in the state of a third world C that ran the sequence alone. Worlds share nothing.

type twinWorld struct {
	w        *ecs.World
	mp       *ecs.Map1[ct.CP]
	mpq      *ecs.Map2[ct.CP, ct.CQ]
	mq       *ecs.Map1[ct.CQ]
	mr       *ecs.Map2[ct.CP, ct.CR1]
	fp       *ecs.Filter1[ct.CP]
	fr       *ecs.Filter1[ct.CR1]
	targets  []ecs.Entity
	handles  []ecs.Entity
	cbCounts []int
}

// newDisturber: an unrelated world of a different shape (fewer tables and entities); operations on it from
// inside another world's callback must not influence that world.
func newDisturber() *twinWorld {
	w := ecs.NewWorld(8)
	t := &twinWorld{w: w, mp: ecs.NewMap1[ct.CP](w), mpq: ecs.NewMap2[ct.CP, ct.CQ](w), mq: ecs.NewMap1[ct.CQ](w),
		mr: ecs.NewMap2[ct.CP, ct.CR1](w), fp: ecs.NewFilter1[ct.CP](w), fr: ecs.NewFilter1[ct.CR1](w)}
	for i := 0; i < 3; i++ {
		t.targets = append(t.targets, w.NewEntity())
	}
	t.mp.NewEntity(&ct.CP{X: 1})
	t.mr.NewEntity(&ct.CP{X: 2}, &ct.CR1{}, ecs.RelIdx(1, t.targets[0]))
	return t
}

func newTwin() *twinWorld {
	w := ecs.NewWorld(2)
	t := &twinWorld{w: w, mp: ecs.NewMap1[ct.CP](w), mpq: ecs.NewMap2[ct.CP, ct.CQ](w), mq: ecs.NewMap1[ct.CQ](w),
		mr: ecs.NewMap2[ct.CP, ct.CR1](w), fp: ecs.NewFilter1[ct.CP](w), fr: ecs.NewFilter1[ct.CR1](w)}
	for i := 0; i < 3; i++ {
		t.targets = append(t.targets, w.NewEntity())
	}
	for i := 0; i < 5; i++ {
		t.mp.NewEntity(&ct.CP{X: int64(i + 1)})
	}
	for i := 0; i < 3; i++ {
		t.mpq.NewEntity(&ct.CP{X: int64(10 + i)}, &ct.CQ{V: int32(i)})
	}
	for i := 0; i < 6; i++ {
		t.mr.NewEntity(&ct.CP{X: int64(20 + i)}, &ct.CR1{}, ecs.RelIdx(1, t.targets[i%3]))
	}
	return t
}

// twinOps: operations with callbacks; inner (if not nil) is called once from inside the first callback.
var twinOps = []struct {
	name string
	run  func(t *twinWorld, inner func())
}{
	{"RemoveEntities(Filter1[R1], fn)", func(t *twinWorld, inner func()) {
		n := 0
		t.w.RemoveEntities(t.fr.Batch(), func(e ecs.Entity) {
			if n == 0 && inner != nil {
				inner()
			}
			n++
		})
		t.cbCounts = append(t.cbCounts, n)
		if n == 0 && inner != nil {
			inner() // nothing was selected, no callback ran: the second world runs the operation afterwards
		}
	}},
	{"Map1[Q].AddBatchFn(Filter1[P] without Q)", func(t *twinWorld, inner func()) {
		n := 0
		f := ecs.NewFilter1[ct.CP](t.w).Without(ecs.C[ct.CQ]())
		t.mq.AddBatchFn(f.Batch(), func(e ecs.Entity, q *ct.CQ) {
			if n == 0 && inner != nil {
				inner()
			}
			q.V = 9
			n++
		})
		t.cbCounts = append(t.cbCounts, n)
		if n == 0 && inner != nil {
			inner() // nothing was selected, no callback ran: the second world runs the operation afterwards
		}
	}},
	{"Map1[Q].RemoveBatch(Filter1[Q], fn)", func(t *twinWorld, inner func()) {
		n := 0
		t.mq.RemoveBatch(ecs.NewFilter1[ct.CQ](t.w).Batch(), func(e ecs.Entity) {
			if n == 0 && inner != nil {
				inner()
			}
			n++
		})
		t.cbCounts = append(t.cbCounts, n)
		if n == 0 && inner != nil {
			inner() // nothing was selected, no callback ran: the second world runs the operation afterwards
		}
	}},
	{"SetRelationsBatch(all -> target 0 or the zero entity, fn)", func(t *twinWorld, inner func()) {
		n := 0
		tg := ecs.Entity{}
		if t.w.Alive(t.targets[0]) {
			tg = t.targets[0]
		}
		ecs.NewMap1[ct.CR1](t.w).SetRelationsBatch(t.fr.Batch(), func(e ecs.Entity) {
			if n == 0 && inner != nil {
				inner()
			}
			n++
		}, ecs.RelIdx(0, tg))
		t.cbCounts = append(t.cbCounts, n)
		if n == 0 && inner != nil {
			inner() // nothing was selected, no callback ran: the second world runs the operation afterwards
		}
	}},
	{"NewEntities(3, fn)", func(t *twinWorld, inner func()) {
		n := 0
		t.w.NewEntities(3, func(e ecs.Entity) {
			if n == 0 && inner != nil {
				inner()
			}
			t.handles = append(t.handles, e)
			n++
		})
		t.cbCounts = append(t.cbCounts, n)
		if n == 0 && inner != nil {
			inner() // nothing was selected, no callback ran: the second world runs the operation afterwards
		}
	}},
	{"Map1[P].NewBatchFn(3)", func(t *twinWorld, inner func()) {
		n := 0
		t.mp.NewBatchFn(3, func(e ecs.Entity, p *ct.CP) {
			if n == 0 && inner != nil {
				inner()
			}
			p.X = int64(100 + n)
			t.handles = append(t.handles, e)
			n++
		})
		t.cbCounts = append(t.cbCounts, n)
		if n == 0 && inner != nil {
			inner() // nothing was selected, no callback ran: the second world runs the operation afterwards
		}
	}},
	{"RemoveEntities(entities without components = the relation targets, fn)", func(t *twinWorld, inner func()) {
		n := 0
		t.w.RemoveEntities(ecs.NewFilter0(t.w).Exclusive().Batch(), func(e ecs.Entity) {
			if n == 0 && inner != nil {
				inner()
			}
			n++
		})
		t.cbCounts = append(t.cbCounts, n)
		if n == 0 && inner != nil {
			inner() // nothing was selected, no callback ran: the second world runs the operation afterwards
		}
	}},
}

// digest lists every entity with its components, values and relation target, the iteration order of two
// queries, issued handles, callback counts and the entity statistics.
func (t *twinWorld) digest() string {
	s := ""
	u := t.w.Unsafe()
	pID, qID, rID := ecs.ComponentID[ct.CP](t.w), ecs.ComponentID[ct.CQ](t.w), ecs.ComponentID[ct.CR1](t.w)
	q := ecs.NewFilter0(t.w).Query()
	for q.Next() {
		e := q.Entity()
		s += fmt.Sprintf("%d/%d", e.ID(), e.Gen())
		if u.Has(e, pID) {
			s += fmt.Sprintf(" P=%d", (*ct.CP)(u.Get(e, pID)).X)
		}
		if u.Has(e, qID) {
			s += fmt.Sprintf(" Q=%d", (*ct.CQ)(u.Get(e, qID)).V)
		}
		if u.Has(e, rID) {
			tg := u.GetRelation(e, rID)
			s += fmt.Sprintf(" R->%d/%d", tg.ID(), tg.Gen())
		}
		s += ";"
	}
	q2 := t.fr.Query()
	s += "|"
	for q2.Next() {
		s += fmt.Sprintf("%d,", q2.Entity().ID())
	}
	st := t.w.Stats()
	s += fmt.Sprintf("|handles=%v|callbacks=%v|used=%d recycled=%d", t.handles, t.cbCounts, st.Entities.Used, st.Entities.Recycled)
	return s
}

// nestedTwinSweep: every ordered pair of callback operations (k1, k2), three worlds.
func nestedTwinSweep() (cases, steps int, found []*drv.Violation) {
	for i := range twinOps {
		for j := range twinOps {
			i, j := i, j
			c, s, f := runCases(func() (int, *drv.Violation) {
				what := fmt.Sprintf("twin worlds, operations [%s ; %s]", twinOps[i].name, twinOps[j].name)
				a, b, c := newTwin(), newTwin(), newTwin()
				d := newDisturber()
				n := 0
				for _, k := range []int{i, j} {
					n++
					op := twinOps[k]
					var pa, pb, pc any
					func() {
						defer func() { pc = recover() }()
						op.run(c, nil)
					}()
					func() {
						defer func() { pa = recover() }()
						op.run(a, func() {
							defer func() { pb = recover() }()
							op.run(b, nil)
							// and an unrelated world of a different shape does something else
							func() {
								defer func() { recover() }()
								twinOps[(k+3)%len(twinOps)].run(d, nil)
								twinOps[(k+1)%len(twinOps)].run(d, nil)
							}()
						})
					}()
					if pc != nil {
						return n, viol("twin", n, "%s: the operation panicked in a world on its own: %v", what, pc)
					}
					if pa != nil || pb != nil {
						return n, viol("twin", n, "%s: operation %d panicked when the second world ran it from inside the first world's callback (outer: %v, inner: %v)", what, n, pa, pb)
					}
					dc := c.digest()
					if da := a.digest(); da != dc {
						return n, viol("twin", n, "%s: after operation %d the OUTER world differs from a world that ran the same sequence alone:\n    alone: %s\n    outer: %s", what, n, dc, da)
					}
					if db := b.digest(); db != dc {
						return n, viol("twin", n, "%s: after operation %d the INNER world (driven from the other world's callback) differs from a world that ran the same sequence alone:\n    alone: %s\n    inner: %s", what, n, dc, db)
					}
				}
				return n, nil
			})
			cases, steps, found = cases+c, steps+s, append(found, f...)
		}
	}
	return
}
