package drv

import (
	"fmt"
	"unsafe"

	"github.com/mlange-42/ark/ecs"

	"verif/mc/api"
	"verif/mc/ct"
	"verif/mc/model"
)

// Observe runs the selected oracle components against the current state.
func (x *World) Observe() *Violation {
	x.Stat.Observations++
	var v *Violation
	panicked, pval := try(func() { v = x.observeAll() })
	if panicked {
		return x.viol("panic", "observation (read-only API calls) panicked: %v", pval)
	}
	return v
}

func (x *World) observeAll() *Violation {
	if x.Or.World {
		if v := x.compareWorld(x.M, nil, x.Or.Typed); v != nil {
			return v
		}
	}
	if x.Or.Lock {
		if got := x.W.IsLocked(); got != x.M.Locked() {
			return x.viol("lock", "IsLocked()=%v, model has %d open queries", got, x.M.OpenCount())
		}
	}
	if x.Or.Tuple != nil {
		if v := x.checkTuple(x.Or.Tuple); v != nil {
			return v
		}
	}
	if x.Or.Res {
		if v := x.checkResources(); v != nil {
			return v
		}
	}
	if x.Or.Pool {
		if v := x.checkPool(); v != nil {
			return v
		}
	}
	for k := range x.Or.Family {
		if v := x.evalFamily(&x.Or.Family[k]); v != nil {
			return v
		}
	}
	if x.Or.Filters {
		for f := range x.filters {
			if x.filters[f] == nil {
				continue
			}
			spec := &x.M.Filters[f]
			if v := x.evalFilter(x.filters[f], spec, nil, fmt.Sprintf("f%d(reg=%v)", f, x.M.Reg[f])); v != nil {
				return v
			}
			// per-query targets for relation components that the filter leaves open
			for _, c := range spec.Required().Rels().List() {
				if model.Target(spec.Rels, c) != model.NoTarget {
					continue
				}
				for _, t := range x.targetCandidates() {
					qt := []model.RelT{{C: c, T: t}}
					if v := x.evalFilter(x.filters[f], spec, qt, fmt.Sprintf("f%d(reg=%v)", f, x.M.Reg[f])); v != nil {
						return v
					}
				}
			}
		}
	}
	if x.Or.Stats {
		if v := x.checkStats(); v != nil {
			return v
		}
	}
	if x.Or.Lock {
		if got := x.W.IsLocked(); got != x.M.Locked() {
			return x.viol("lock", "after observation queries: IsLocked()=%v, model has %d open queries", got, x.M.OpenCount())
		}
	}
	return nil
}

// targetCandidates: the zero entity and up to two alive entities that are currently targets,
// plus one alive entity that is not a target.
func (x *World) targetCandidates() []int {
	out := []int{model.ZeroTarget}
	isT := map[int]bool{}
	for i := range x.M.Ents {
		e := &x.M.Ents[i]
		if !e.Alive {
			continue
		}
		for _, c := range e.Comps.Rels().List() {
			if e.Tgt[c] >= 0 {
				isT[e.Tgt[c]] = true
			}
		}
	}
	n := 0
	for i := range x.M.Ents {
		if isT[i] && n < 2 {
			out = append(out, i)
			n++
		}
	}
	for i := range x.M.Ents {
		if x.M.Ents[i].Alive && !isT[i] {
			out = append(out, i)
			break
		}
	}
	return out
}

// skipVal marks (entity, component) pairs whose value is not yet written (ID-based path
// fires add/create events before the harness can write through the pointer).
type skipVal struct {
	ent int
	cs  ct.Set
}

// compareWorld compares every entity of the current epoch with the reference state.
func (x *World) compareWorld(ref *model.Model, skip *skipVal, typed bool) *Violation {
	u := x.W.Unsafe()
	for i := ref.EpochLo; i < len(ref.Ents); i++ {
		if x.onlyEnt != 0 && i != x.onlyEnt-1 {
			continue
		}
		if i >= len(x.H) || x.byHandle[x.H[i]] != i {
			continue // handle not known yet (entity being created by the current op)
		}
		h := x.H[i]
		e := &ref.Ents[i]
		if got := x.W.Alive(h); got != e.Alive {
			return x.viol("alive", "Alive(#%d %v)=%v, model says %v", i, h, got, e.Alive)
		}
		if !e.Alive {
			continue
		}
		ids := u.IDs(h)
		var gotSet ct.Set
		for k := 0; k < ids.Len(); k++ {
			c, ok := x.Env.CompByID(ids.Get(k))
			if !ok {
				return x.viol("comps", "entity #%d %v has unknown component ID %d", i, h, ids.Get(k).Index())
			}
			if gotSet.Has(c) {
				return x.viol("comps", "entity #%d %v lists component %s twice", i, h, c)
			}
			gotSet |= ct.Of(c)
		}
		if gotSet != e.Comps {
			return x.viol("comps", "entity #%d %v has components %s, model says %s", i, h, gotSet, e.Comps)
		}
		for _, c := range x.Cfg.Universe {
			id := x.Env.ID(c)
			has := u.Has(h, id)
			if has != e.Comps.Has(c) {
				return x.viol("comps", "Has(#%d %v, %s)=%v, model says %v", i, h, c, has, e.Comps.Has(c))
			}
			if hu := u.HasUnchecked(h, id); hu != has {
				return x.viol("comps", "HasUnchecked(#%d %v, %s)=%v but Has=%v for an alive entity", i, h, c, hu, has)
			}
			var sm api.Mapper
			if typed {
				sm = x.singleMapper(c)
				if got := sm.HasAll(h); got != has {
					return x.viol("comps", "Map[%s].Has(#%d)=%v but Unsafe.Has=%v", c, i, got, has)
				}
			}
			if !has {
				if typed {
					if p := sm.Get(h)[0]; p != nil {
						return x.viol("comps", "Map[%s].Get(#%d) non-nil for a missing component", c, i)
					}
				}
				continue
			}
			p := u.Get(h, id)
			if p == nil {
				return x.viol("value", "Unsafe.Get(#%d,%s) returned nil", i, c)
			}
			if pu := u.GetUnchecked(h, id); pu != p {
				return x.viol("value", "Unsafe.GetUnchecked(#%d,%s)=%p differs from Unsafe.Get=%p", i, c, pu, p)
			}
			if typed {
				if p2 := sm.Get(h)[0]; p2 != p {
					return x.viol("value", "Map[%s].Get(#%d)=%p differs from Unsafe.Get=%p", c, i, p2, p)
				}
			}
			if skip == nil || skip.ent != i || !skip.cs.Has(c) {
				tok, ok := ct.Read(c, p)
				if !ok || tok != e.Val[c] {
					return x.viol("value", "entity #%d %v component %s holds token %d (consistent=%v), model says %d", i, h, c, tok, ok, e.Val[c])
				}
			}
			if ct.IsRel(c) {
				got := u.GetRelation(h, id)
				want := ecs.Entity{}
				if e.Tgt[c] >= 0 {
					want = x.H[e.Tgt[c]]
				}
				if got != want {
					return x.viol("relation", "entity #%d %v relation %s targets %v, model says %v (#%d)", i, h, c, got, want, e.Tgt[c])
				}
				if !got.IsZero() && !x.W.Alive(got) {
					return x.viol("relation", "entity #%d %v relation %s targets dead entity %v", i, h, c, got)
				}
				if gu := u.GetRelationUnchecked(h, id); gu != got {
					return x.viol("relation", "Unsafe.GetRelationUnchecked(#%d,%s)=%v but GetRelation=%v", i, c, gu, got)
				}
				if typed {
					if g2 := sm.GetRelation(h, c); g2 != got {
						return x.viol("relation", "Map[%s].GetRelation(#%d)=%v but Unsafe.GetRelation=%v", c, i, g2, got)
					}
					if g3 := sm.GetRelationUnchecked(h, c); g3 != got {
						return x.viol("relation", "Map[%s].GetRelationUnchecked(#%d)=%v but Unsafe.GetRelation=%v", c, i, g3, got)
					}
				}
			}
		}
	}
	return nil
}

// checkPool: C02 oracle.
func (x *World) checkPool() *Violation {
	seen := map[ecs.Entity]int{}
	for i := x.M.EpochLo; i < len(x.M.Ents) && i < len(x.H); i++ {
		h := x.H[i]
		if h.IsZero() {
			return x.viol("handle", "entity #%d got the zero handle", i)
		}
		if j, dup := seen[h]; dup {
			return x.viol("handle", "handle %v issued twice (#%d and #%d)", h, j, i)
		}
		seen[h] = i
		if got := x.W.Alive(h); got != x.M.Ents[i].Alive {
			return x.viol("alive", "Alive(#%d %v)=%v, model says %v", i, h, got, x.M.Ents[i].Alive)
		}
	}
	st := x.W.Stats()
	if st.Entities.Used != x.M.NumAlive() {
		return x.viol("count", "Stats().Entities.Used=%d, model has %d alive (created %d, removed %d)", st.Entities.Used, x.M.NumAlive(), x.M.Created_, x.M.Removed_)
	}
	if st.Entities.Total != st.Entities.Used+st.Entities.Recycled {
		return x.viol("count", "Stats().Entities: Total=%d != Used=%d + Recycled=%d", st.Entities.Total, st.Entities.Used, st.Entities.Recycled)
	}
	f0 := model.FilterSpec{}
	return x.evalFamily(&f0)
}

// evalFamily builds a fresh filter from spec and evaluates it (fixed relations both via
// Filter.Relations and via Query arguments).
func (x *World) evalFamily(spec *model.FilterSpec) *Violation {
	for _, r := range spec.Rels {
		if r.T != model.ZeroTarget && !x.M.IsAlive(r.T) {
			return nil // cannot be built now
		}
	}
	fl := x.buildFilter(spec)
	if v := x.evalFilter(fl, spec, nil, "fresh"); v != nil {
		return v
	}
	if spec.Unsafe && len(spec.Rels) == 0 {
		// stale (dead, possibly id-recycled) handles as per-query targets: must match nothing
		for _, c := range spec.Required().Rels().List() {
			for _, d := range x.deadSamples() {
				if v := x.evalFilter(fl, spec, []model.RelT{{C: c, T: d}}, "fresh/stale-target"); v != nil {
					return v
				}
			}
		}
	}
	if len(spec.Rels) > 0 {
		open := *spec
		open.Rels = nil
		fl2 := x.buildFilter(&open)
		if v := x.evalFilter(fl2, &open, spec.Rels, "fresh/query-targets"); v != nil {
			return v
		}
	}
	return nil
}

// evalFilter runs one query of fl and compares it with the model.
func (x *World) evalFilter(fl api.Filter, spec *model.FilterSpec, qt []model.RelT, what string) *Violation {
	x.Stat.QueriesRun++
	for _, r := range qt {
		// typed queries reject dead targets (checked), the ID-based API accepts any handle
		if r.T != model.ZeroTarget && !x.M.IsAlive(r.T) && !spec.Unsafe {
			return nil
		}
	}
	expected := x.M.Select(spec, qt)
	desc := func() string { return fmt.Sprintf("%s %v%v", what, *spec, qt) }
	q := fl.Query(x.relArgs(qt))
	n := q.Count()
	if n != len(expected) {
		q.Close()
		return x.viol("query", "%s: Count()=%d, model expects %d %v", desc(), n, len(expected), x.handles(expected))
	}
	ats := make([]ecs.Entity, n)
	for k := 0; k < n; k++ {
		ats[k] = q.EntityAt(k)
	}
	seen := map[ecs.Entity]bool{}
	var order []ecs.Entity
	for q.Next() {
		e := q.Entity()
		if len(order) > len(expected)+2 {
			q.Close()
			return x.viol("query", "%s: iteration yields more than the %d expected entities (%v...)", desc(), len(expected), order)
		}
		if seen[e] {
			q.Close()
			return x.viol("query", "%s: entity %v visited twice", desc(), e)
		}
		seen[e] = true
		order = append(order, e)
		i, known := x.byHandle[e]
		if !known || i >= len(x.M.Ents) || !contains(expected, i) {
			q.Close()
			return x.viol("query", "%s: visited entity %v (#%d) that does not match; expected %v", desc(), e, i, x.handles(expected))
		}
		if v := x.checkQueryRow(q, spec, i, e); v != nil {
			q.Close()
			return v
		}
	}
	if len(order) != len(expected) {
		return x.viol("query", "%s: visited %d entities %v, model expects %d %v", desc(), len(order), order, len(expected), x.handles(expected))
	}
	for k := range ats {
		if ats[k] != order[k] {
			return x.viol("query", "%s: EntityAt(%d)=%v but the %d-th visited entity is %v", desc(), k, ats[k], k, order[k])
		}
	}
	q.Close() // closing a finished query again must be harmless
	// a query that is closed without iterating must release its lock, too
	q2 := fl.Query(x.relArgs(qt))
	q2.Close()
	q2.Close()
	if got := x.W.IsLocked(); got != x.M.Locked() && !x.inOp {
		return x.viol("lock", "%s: after finishing/closing queries IsLocked()=%v, model has %d open queries", desc(), got, x.M.OpenCount())
	}
	return nil
}

func (x *World) handles(is []int) []ecs.Entity {
	out := make([]ecs.Entity, len(is))
	for k, i := range is {
		out[k] = x.H[i]
	}
	return out
}

// checkQueryRow checks pointers, values and relation targets of the query's current row.
func (x *World) checkQueryRow(q api.Query, spec *model.FilterSpec, i int, e ecs.Entity) *Violation {
	u := x.W.Unsafe()
	ptrs := q.Get()
	if len(ptrs) != len(spec.Params) {
		return x.viol("query", "Get() returned %d pointers for %d parameters", len(ptrs), len(spec.Params))
	}
	me := &x.M.Ents[i]
	for k, c := range spec.Params {
		want := u.Get(e, x.Env.ID(c))
		if ptrs[k] != want {
			return x.viol("query", "query Get()[%d] (%s) for entity #%d %v = %p, random access returns %p", k, c, i, e, ptrs[k], want)
		}
		tok, ok := ct.Read(c, ptrs[k])
		if !ok || tok != me.Val[c] {
			return x.viol("value", "query Get()[%d] (%s) for entity #%d holds token %d (consistent=%v), model says %d", k, c, i, tok, ok, me.Val[c])
		}
	}
	{
		// typed queries resolve GetRelation by generic parameter position only
		relSet := ct.Of(spec.Params...).Rels()
		if spec.Unsafe {
			relSet = spec.Required().Rels()
		}
		for _, c := range relSet.List() {
			got := q.GetRelation(c)
			want := x.handle(me.Tgt[c])
			if got != want {
				return x.viol("relation", "query GetRelation(%s) for entity #%d %v = %v, model says %v", c, i, e, got, want)
			}
		}
	}
	if ex, ok := q.(api.UnsafeQueryExtras); ok {
		var gotSet ct.Set
		for _, id := range ex.IDs() {
			c, ok := x.Env.CompByID(id)
			if !ok {
				return x.viol("query", "UnsafeQuery.IDs() lists unknown ID %d", id.Index())
			}
			gotSet |= ct.Of(c)
		}
		if gotSet != me.Comps {
			return x.viol("query", "UnsafeQuery.IDs() for entity #%d = %s, model says %s", i, gotSet, me.Comps)
		}
		for _, c := range x.Cfg.Universe {
			if ex.Has(c) != me.Comps.Has(c) {
				return x.viol("query", "UnsafeQuery.Has(%s) for entity #%d = %v, model says %v", c, i, ex.Has(c), me.Comps.Has(c))
			}
		}
	}
	return nil
}

// ---------------------------------------------------------------- observers

func (x *World) observe(o int) {
	spec := &x.M.Obs[o]
	evt := x.events[spec.Event]
	var ob api.Observer
	if len(spec.Params) > 0 {
		ob = api.TypedObserver(x.Env, evt, spec.Params)
		if ob == nil {
			harness("no typed observer instantiated for %v", spec.Params)
		}
	} else {
		ob = api.NewPlainObserver(x.Env, evt)
	}
	if spec.For != 0 {
		ob.For(spec.For.List()...)
	}
	if spec.With != 0 {
		ob.With(spec.With.List()...)
	}
	if spec.Exclusive {
		ob.Exclusive()
	} else if spec.Without != 0 {
		ob.Without(spec.Without.List()...)
	}
	ob.Do(func(e ecs.Entity, ptrs []unsafe.Pointer) { x.callback(o, e, ptrs) })
	x.obs[o] = ob
	ob.Register()
}

func isRemovalEvent(ev int) bool {
	return ev == model.EvRemoveEntity || ev == model.EvRemoveComponents || ev == model.EvRemoveRelations
}

func (x *World) callback(o int, e ecs.Entity, ptrs []unsafe.Pointer) {
	x.cbs = append(x.cbs, CbRec{Obs: o, Ent: e, Locked: x.W.IsLocked()})
	x.Stat.Callbacks++
	spec := &x.M.Obs[o]
	if x.Or.InCb && x.cbViol == nil {
		if v := x.inCallback(o, e, ptrs); v != nil {
			x.cbViol = v
		}
	}
	if isRemovalEvent(spec.Event) || (x.curOp != nil && isBatch(x.curOp.K)) {
		if !e.IsZero() {
			x.probeLocked(e)
		}
	}
	switch spec.Action {
	case 1:
		if x.M.ObsReg[o] {
			x.M.ObsReg[o] = false
			x.obs[o].Unregister()
		}
	case 2:
		if x.M.ObsReg[spec.Arg] {
			x.M.ObsReg[spec.Arg] = false
			x.obs[spec.Arg].Unregister()
		}
	}
}

// resolve maps a handle seen in a callback to a model entity; handles of entities
// that the current op is creating are bound on first sight.
func (x *World) resolve(e ecs.Entity) (int, bool) {
	if i, ok := x.byHandle[e]; ok {
		return i, true
	}
	if x.curRes != nil {
		for _, i := range x.curRes.Created {
			if i >= len(x.H) || x.byHandle[x.H[i]] != i || x.H[i].IsZero() {
				x.register(i, e)
				return i, true
			}
		}
	}
	return -1, false
}

// inCallback is the C09 oracle, evaluated from inside an observer callback.
func (x *World) inCallback(o int, e ecs.Entity, ptrs []unsafe.Pointer) *Violation {
	spec := &x.M.Obs[o]
	op := x.curOp
	pre := isRemovalEvent(spec.Event)
	ref := x.M
	when := "after"
	if pre {
		ref = x.preM
		when = "before"
	}
	if spec.Event >= model.EvCustom && e.IsZero() {
		return nil
	}
	if !x.W.Alive(e) {
		return x.viol("callback", "%v: %s callback got entity %v which is not alive", *op, model.EvNames[spec.Event], e)
	}
	i, ok := x.resolve(e)
	if !ok {
		return x.viol("callback", "%v: %s callback got unknown entity %v", *op, model.EvNames[spec.Event], e)
	}
	// the entity must be one the operation affects
	affected := false
	for _, ev := range x.curRes.Events {
		if ev.Obs == o && ev.Ent == i {
			affected = true
		}
	}
	if !affected {
		// reported under C08 by the event multiset; do not double report here
		return nil
	}
	if x.Or.InCbPtr {
		// C14: the reported entity itself (components and values before/after the change) and the pointers
		var skip *skipVal
		if op.Path == model.PathUnsafe && !pre && (op.K == model.OpNew || op.K == model.OpAdd || op.K == model.OpExchange) {
			skip = &skipVal{ent: i, cs: op.Cs}
		}
		x.onlyEnt = i + 1
		v := x.compareWorld(ref, skip, false)
		x.onlyEnt = 0
		if v != nil {
			v.Kind = "callback-entity"
			v.Msg = fmt.Sprintf("%v: in %s callback (must see the entity %s the change): %s", *op, model.EvNames[spec.Event], when, v.Msg)
			return v
		}
		return x.checkCallbackPointers(spec, op, e, ptrs)
	}
	// lock state
	wantLocked := pre || x.curRes.LockedCb && isBatch(op.K) || x.preM.Locked()
	if got := x.W.IsLocked(); got != wantLocked {
		return x.viol("callback-lock", "%v: in %s callback IsLocked()=%v, expected %v", *op, model.EvNames[spec.Event], got, wantLocked)
	}
	// whole-world state: pre-state for removal events, post-state otherwise
	var skip *skipVal
	if op.Path == model.PathUnsafe && !pre && (op.K == model.OpNew || op.K == model.OpAdd || op.K == model.OpExchange) {
		skip = &skipVal{ent: i, cs: op.Cs}
	}
	if v := x.compareWorld(ref, skip, false); v != nil {
		v.Kind = "callback-state"
		if op.K == model.OpSetRelBatch && x.sourceTables(x.curRes.Touched) > 1 {
			v.Kind = "callback-state/multi-table"
		}
		v.Msg = fmt.Sprintf("%v: in %s callback (must see the state %s the change): %s", *op, model.EvNames[spec.Event], when, v.Msg)
		return v
	}
	// the entity appears exactly once in a query, every alive entity once
	f := api.TypedFilter(x.Env, nil)
	q := f.Query(nil)
	count := map[ecs.Entity]int{}
	n := 0
	for q.Next() {
		count[q.Entity()]++
		n++
		if n > len(ref.Ents)+8 {
			q.Close()
			break
		}
	}
	if count[e] != 1 {
		return x.viol("callback-query", "%v: in %s callback a Filter0 query visits the reported entity %v %d times", *op, model.EvNames[spec.Event], e, count[e])
	}
	if n != ref.NumAlive() {
		return x.viol("callback-query", "%v: in %s callback a Filter0 query visits %d entities, %d are alive %s the change", *op, model.EvNames[spec.Event], n, ref.NumAlive(), when)
	}
	return x.checkCallbackPointers(spec, op, e, ptrs)
}

// checkCallbackPointers: typed observers receive pointers that address the reported entity's components.
func (x *World) checkCallbackPointers(spec *model.ObsSpec, op *model.Op, e ecs.Entity, ptrs []unsafe.Pointer) *Violation {
	if len(spec.Params) == 0 {
		return nil
	}
	if len(ptrs) != len(spec.Params) {
		return x.viol("callback", "%v: typed %s callback got %d pointers for %d parameters", *op, model.EvNames[spec.Event], len(ptrs), len(spec.Params))
	}
	u := x.W.Unsafe()
	for k, c := range spec.Params {
		var want unsafe.Pointer
		if u.Has(e, x.Env.ID(c)) {
			want = u.Get(e, x.Env.ID(c))
		}
		if ptrs[k] != want {
			return x.viol("callback", "%v: typed %s callback pointer %d (%s) = %p, random access returns %p", *op, model.EvNames[spec.Event], k, c, ptrs[k], want)
		}
	}
	return nil
}

func isBatch(k model.Kind) bool {
	switch k {
	case model.OpNewBatch, model.OpNewEntities, model.OpAddBatch, model.OpRemoveBatch, model.OpExchangeBatch, model.OpSetRelBatch, model.OpRemoveEntities:
		return true
	}
	return false
}

// sourceTables counts the distinct (component set, relation targets) groups of the given
// entities in the pre-state, i.e. the number of source tables a batch touches.
func (x *World) sourceTables(ents []int) int {
	seen := map[string]bool{}
	for _, i := range ents {
		if x.preM == nil || i >= len(x.preM.Ents) {
			continue
		}
		e := &x.preM.Ents[i]
		seen[fmt.Sprint(e.Comps, e.Tgt)] = true
	}
	return len(seen)
}

// deadSamples returns up to two dead entities of the current epoch: one whose id is in use
// again by a live entity (if any) and one whose id is not.
func (x *World) deadSamples() []int {
	live := map[uint32]bool{}
	for _, i := range x.M.Alive() {
		if i < len(x.H) {
			live[x.H[i].ID()] = true
		}
	}
	a, b := -1, -1
	for i := x.M.EpochLo; i < len(x.M.Ents) && i < len(x.H); i++ {
		if x.M.Ents[i].Alive || x.byHandle[x.H[i]] != i {
			continue
		}
		if live[x.H[i].ID()] {
			if a < 0 {
				a = i
			}
		} else if b < 0 {
			b = i
		}
	}
	var out []int
	if a >= 0 {
		out = append(out, a)
	}
	if b >= 0 {
		out = append(out, b)
	}
	return out
}

// checkTuple: the typed mapper of the ordered tuple returns, for every alive entity, pointers in
// type-parameter order that are address-equal to ID-based access (nil for missing components).
func (x *World) checkTuple(tuple []ct.Comp) *Violation {
	m := x.mapper(model.PathMapN, tuple)
	u := x.W.Unsafe()
	all := ct.Of(tuple...)
	for _, i := range x.M.Alive() {
		if i >= len(x.H) {
			continue
		}
		h := x.H[i]
		e := &x.M.Ents[i]
		for pass, ptrs := range [][]unsafe.Pointer{m.Get(h), m.GetUnchecked(h)} {
			if len(ptrs) != len(tuple) {
				return x.viol("typed", "Map%d.Get returned %d pointers", len(tuple), len(ptrs))
			}
			for k, c := range tuple {
				var want unsafe.Pointer
				if e.Comps.Has(c) {
					want = u.Get(h, x.Env.ID(c))
				}
				if ptrs[k] != want {
					return x.viol("typed", "Map%d%v Get(pass %d) pointer %d (%s) for entity #%d = %p, ID-based access gives %p", len(tuple), tuple, pass, k, c, i, ptrs[k], want)
				}
			}
		}
		if got := m.HasAll(h); got != (e.Comps&all == all) {
			return x.viol("typed", "Map%d%v.HasAll(#%d)=%v, model components %s", len(tuple), tuple, i, got, e.Comps)
		}
		if e.Comps&all == all {
			for _, c := range tuple {
				if ct.IsRel(c) {
					want := x.handle(e.Tgt[c])
					if got := m.GetRelation(h, c); got != want {
						return x.viol("typed", "Map%d%v.GetRelation(#%d, index of %s)=%v, model says %v", len(tuple), tuple, i, c, got, want)
					}
					if got := m.GetRelationUnchecked(h, c); got != want {
						return x.viol("typed", "Map%d%v.GetRelationUnchecked(#%d, index of %s)=%v, model says %v", len(tuple), tuple, i, c, got, want)
					}
				}
			}
		}
	}
	return nil
}
