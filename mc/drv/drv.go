// Package drv executes abstract operations (package model) on a real ark World
// through a selectable API path, in lock-step with the reference model, and
// compares what the exported API lets one observe with the model.
package drv

import (
	"fmt"
	"os"
	"reflect"
	"runtime"
	"runtime/debug"
	"sort"
	"unsafe"

	"github.com/mlange-42/ark/ecs"

	"verif/mc/api"
	"verif/mc/ct"
	"verif/mc/model"
)

// Config is the world configuration of one execution.
type Config struct {
	Cap      int       // initial capacity (0: default)
	CapRel   int       // initial relation capacity (0: same as Cap)
	Offset   int       // number of dummy component types registered first (ID placement)
	Universe []ct.Comp // components registered up front, in this order
	RelMode  api.RelMode
	AutoPad  int // 1: the explorer pads so that the table slice is full before the last op; 2: same for the archetype slice
	Pad      int // number of empty filler archetypes (one table each) created up front, so that table / archetype slices are near their capacity
}

func (c Config) String() string {
	return fmt.Sprintf("cap=%d/%d offset=%d relmode=%d autopad=%d pad=%d universe=%v", c.Cap, c.CapRel, c.Offset, c.RelMode, c.AutoPad, c.Pad, c.Universe)
}

// Oracle selects the oracle components evaluated by Observe.
type Oracle struct {
	World    bool // liveness, component sets, values, relation targets of every entity
	Typed    bool // additionally through Map[T] (pointer identity with Unsafe.Get, Has)
	Family   []model.FilterSpec
	Filters  bool      // evaluate all created scenario filters (cached or not) against the model
	Twins    bool      // registered filters vs. fresh unregistered twins
	Stats    bool      // World.Stats() consistency (calls Stats, which updates the stats cache)
	Lock     bool      // IsLocked agrees with the model
	Events   bool      // observer callbacks multiset per operation
	InCb     bool      // C09: inspect the world from inside observer callbacks
	InCbPtr  bool      // C14: with InCb, only check the pointers handed to typed observers
	Res      bool      // resources agree with the model
	Tuple    []ct.Comp // C14: MapN for this ordered tuple returns pointers in parameter order, equal to ID-based access
	ProbeCb  bool      // C07: attempt structural operations from inside removal and batch callbacks
	Pool     bool      // C02: handle uniqueness, Alive of every handle ever issued, counts
	ZeroInit bool      // C11: uninitialised components read as zero (part of World compare anyway)
}

// Violation describes a failed oracle.
type Violation struct {
	Kind   string // oracle component, e.g. "value", "alive", "query", "panic", "event"
	Msg    string
	Step   int
	OpKind string // kind of the last executed operation
}

func (v *Violation) Error() string { return fmt.Sprintf("[%s] step %d: %s", v.Kind, v.Step, v.Msg) }

// CbRec is one recorded observer callback.
type CbRec struct {
	Obs    int
	Ent    ecs.Entity
	Locked bool
}

type qslot struct {
	q       api.Query
	visited map[ecs.Entity]bool
	order   []ecs.Entity
	started bool
}

// World couples a real world with the model.
type World struct {
	W   *ecs.World
	Env *api.Env
	Cfg Config
	M   *model.Model
	Or  Oracle

	H        []ecs.Entity // handle per model entity
	byHandle map[ecs.Entity]int

	filters []api.Filter
	queries []qslot
	obs     []api.Observer
	events  [model.NumEvents]ecs.EventType
	leaked  *ecs.Query0 // query left open by a callback (Op.Leak)

	mappers map[string]api.Mapper
	exch    map[string]api.Exchanger
	single  [ct.NumComps]api.Mapper

	cbs      []CbRec
	cbViol   *Violation
	inOp     bool
	preM     *model.Model // model before the current op (for in-callback checks)
	curRes   *model.Result
	curOp    *model.Op
	Step     int
	resAcc   [4]*resAccess
	slotOpen []bool // query slots open before the current op
	onlyEnt  int    // compareWorld restricted to entity onlyEnt-1 (0: all)

	// OnStep, if set, is called at the start of every Exec with the step number.
	OnStep func(step int)

	// statistics about what the execution exercised (for evidence)
	Stat Stats
}

// Stats counts interesting things an execution exercised.
type Stats struct {
	Ops, Observations, QueriesRun, Callbacks, Panics int
}

var eventTypes = [model.NumEvents]ecs.EventType{
	ecs.OnCreateEntity, ecs.OnRemoveEntity, ecs.OnAddComponents, ecs.OnRemoveComponents,
	ecs.OnSetComponents, ecs.OnAddRelations, ecs.OnRemoveRelations, 0, 1,
}

// NewWorld creates a fresh world and model.
func NewWorld(cfg Config, filters []model.FilterSpec, obs []model.ObsSpec, slots int, or Oracle) *World {
	var w *ecs.World
	switch {
	case cfg.Cap == 0:
		w = ecs.NewWorld()
	case cfg.CapRel == 0:
		w = ecs.NewWorld(cfg.Cap)
	default:
		w = ecs.NewWorld(cfg.Cap, cfg.CapRel)
	}
	x := &World{
		W: w, Env: api.NewEnv(w), Cfg: cfg, Or: or,
		M:        model.New(filters, obs, slots),
		byHandle: map[ecs.Entity]int{},
		filters:  make([]api.Filter, len(filters)),
		queries:  make([]qslot, slots),
		obs:      make([]api.Observer, len(obs)),
		mappers:  map[string]api.Mapper{},
		exch:     map[string]api.Exchanger{},
		events:   eventTypes,
	}
	// custom event types come from an EventRegistry
	var reg ecs.EventRegistry
	x.events[model.EvCustom] = reg.NewEventType()
	x.events[model.EvCustom2] = reg.NewEventType()
	x.Env.Mode = cfg.RelMode
	api.RegisterDummies(w, cfg.Offset)
	for _, c := range cfg.Universe {
		x.Env.ID(c)
	}
	// filler archetypes: one entity with one filler component each, removed again; the
	// archetypes and their tables stay (ark never drops them), no entity stays alive
	for i := 0; i < cfg.Pad; i++ {
		id := ecs.TypeID(w, reflect.ArrayOf(300+i, reflect.TypeFor[int8]()))
		e := w.Unsafe().NewEntity(id)
		w.RemoveEntity(e)
	}
	return x
}

// try runs f and reports whether it panicked.
func try(f func()) (panicked bool, val any) {
	defer func() {
		if r := recover(); r != nil {
			if _, ok := r.(harnessError); ok {
				panic(r)
			}
			panicked = true
			val = r
			if os.Getenv("VERIF_STACK") != "" {
				val = fmt.Sprintf("%v\n%s", r, debug.Stack())
			}
		}
	}()
	f()
	return
}

type harnessError struct{ msg string }

func (h harnessError) Error() string { return "harness error: " + h.msg }

func harness(format string, a ...any) { panic(harnessError{fmt.Sprintf(format, a...)}) }

func (x *World) viol(kind, format string, a ...any) *Violation {
	v := &Violation{Kind: kind, Msg: fmt.Sprintf(format, a...), Step: x.Step}
	if x.curOp != nil {
		v.OpKind = x.curOp.K.String()
	}
	return v
}

func (x *World) handle(i int) ecs.Entity {
	if i == model.ZeroTarget {
		return ecs.Entity{}
	}
	return x.H[i]
}

func (x *World) relArgs(rs []model.RelT) []api.RelArg {
	if len(rs) == 0 {
		return nil
	}
	out := make([]api.RelArg, len(rs))
	for i, r := range rs {
		out[i] = api.RelArg{Comp: r.C, Target: x.handle(r.T)}
	}
	return out
}

// relArgsOrdered orders relation args by the tuple (typed RelIdx order is free, keep op order).
func (x *World) mapper(path model.Path, tuple []ct.Comp) api.Mapper {
	key := fmt.Sprintf("%d/%s", path, api.Key(tuple))
	if m, ok := x.mappers[key]; ok {
		return m
	}
	var m api.Mapper
	switch path {
	case model.PathUnsafe:
		m = api.NewUnsafeMapper(x.Env, tuple)
	case model.PathMapN, model.PathExchange:
		m = api.TypedMapper(x.Env, tuple)
	case model.PathMap:
		if len(tuple) != 1 {
			harness("PathMap needs exactly one component, got %v", tuple)
		}
		m = api.SingleMapper(x.Env, tuple[0])
	default:
		harness("no mapper for path %v", path)
	}
	if m == nil {
		harness("no typed mapper instantiated for tuple %v", tuple)
	}
	x.mappers[key] = m
	return m
}

func (x *World) exchanger(path model.Path, add, rem []ct.Comp) api.Exchanger {
	key := fmt.Sprintf("%d/%s/%s", path, api.Key(add), api.Key(rem))
	if e, ok := x.exch[key]; ok {
		return e
	}
	var e api.Exchanger
	if path == model.PathUnsafe {
		e = api.NewUnsafeExchanger(x.Env, add, rem)
	} else {
		t := add
		if len(t) == 0 {
			// ExchangeN needs at least one type parameter even when only removing
			t = []ct.Comp{ct.T9}
		}
		e = api.TypedExchanger(x.Env, t, rem)
		if e == nil {
			harness("no typed exchanger instantiated for tuple %v", t)
		}
	}
	x.exch[key] = e
	return e
}

func (x *World) singleMapper(c ct.Comp) api.Mapper {
	if x.single[c] == nil {
		x.single[c] = api.SingleMapper(x.Env, c)
	}
	return x.single[c]
}

// filter returns (creating on first use) the persistent scenario filter f.
func (x *World) filter(f int) api.Filter {
	if x.filters[f] != nil {
		return x.filters[f]
	}
	x.filters[f] = x.buildFilter(&x.M.Filters[f])
	return x.filters[f]
}

func (x *World) buildFilter(spec *model.FilterSpec) api.Filter {
	var fl api.Filter
	if spec.Unsafe {
		fl = api.NewUnsafeFilter(x.Env, spec.Params)
	} else {
		fl = api.TypedFilter(x.Env, spec.Params)
		if fl == nil {
			harness("no typed filter instantiated for %v", spec.Params)
		}
	}
	if spec.With != 0 {
		fl.With(spec.With.List()...)
	}
	if spec.Exclusive {
		fl.Exclusive()
	} else if spec.Without != 0 {
		if spec.Unsafe {
			fl.Without(spec.Without.List()...) // UnsafeFilter.Without replaces previous excludes (documented)
		} else {
			for _, c := range spec.Without.List() { // typed filters accumulate over chained calls
				fl.Without(c)
			}
		}
	}
	if len(spec.Rels) > 0 {
		fl.Relations(x.relArgs(spec.Rels))
	}
	return fl
}

func (x *World) vals(i int, tuple []ct.Comp) []int64 {
	out := make([]int64, len(tuple))
	for k, c := range tuple {
		out[k] = x.M.Ents[i].Val[c]
	}
	return out
}

// writer returns a callback writing the model's values of entity i.
func (x *World) writer(i int, tuple []ct.Comp) func([]unsafe.Pointer) {
	return func(p []unsafe.Pointer) {
		if len(p) != len(tuple) {
			x.cbViol = x.viol("callback", "callback got %d pointers for tuple %v", len(p), tuple)
			return
		}
		for k, c := range tuple {
			if p[k] == nil {
				x.cbViol = x.viol("callback", "callback got nil pointer for %s", c)
				return
			}
			ct.Write(c, p[k], x.M.Ents[i].Val[c])
		}
	}
}

func (x *World) register(i int, h ecs.Entity) {
	for len(x.H) <= i {
		x.H = append(x.H, ecs.Entity{})
	}
	x.H[i] = h
	x.byHandle[h] = i
}

// Exec applies op to the model and the world and checks the immediate oracles.
// It does not run the full observation (see Observe).
func (x *World) Exec(op model.Op) *Violation {
	x.Step++
	x.Stat.Ops++
	if x.OnStep != nil {
		x.OnStep(x.Step)
	}
	if x.Or.InCb {
		x.preM = x.M.Clone()
	}
	x.slotOpen = x.slotOpen[:0]
	for i := range x.M.Queries {
		x.slotOpen = append(x.slotOpen, x.M.Queries[i].Open)
	}
	res := x.M.Apply(&op)
	x.curRes, x.curOp = &res, &op
	x.cbs = x.cbs[:0]
	x.cbViol = nil
	x.inOp = true
	var v *Violation
	panicked, pval := try(func() { v = x.run(&op, &res) })
	x.inOp = false
	if panicked {
		x.Stat.Panics++
	}
	if res.Panics {
		if !panicked {
			if op.K == model.OpInvalid {
				return x.viol("accepted", "invalid call %v did not panic", op)
			}
			return x.viol("lock", "%v on a locked world did not panic", op)
		}
		return nil
	}
	if panicked && (op.K == model.OpShrink || op.K == model.OpShrinkLimit) && x.M.Locked() {
		// Shrink on a locked world may either be rejected (panic without effect) or succeed invisibly
		return nil
	}
	if panicked {
		return x.viol("panic", "valid call %v panicked: %v", op, pval)
	}
	if v != nil {
		return v
	}
	if x.cbViol != nil {
		return x.cbViol
	}
	if x.Or.Events {
		if v := x.checkEvents(&op, &res); v != nil {
			return v
		}
	}
	return nil
}

func (x *World) checkEvents(op *model.Op, res *model.Result) *Violation {
	type key struct {
		obs int
		ent ecs.Entity
	}
	want := map[key]int{}
	for _, ev := range res.Events {
		want[key{ev.Obs, x.handle(ev.Ent)}]++
	}
	got := map[key]int{}
	for _, cb := range x.cbs {
		got[key{cb.Obs, cb.Ent}]++
	}
	// An observer unregistered earlier during the same dispatch is "don't care":
	// drop every observer that some callback action of this op unregistered.
	dontCare := map[int]bool{}
	for _, cb := range x.cbs {
		o := &x.M.Obs[cb.Obs]
		switch o.Action {
		case 1:
			dontCare[cb.Obs] = true
		case 2:
			dontCare[o.Arg] = true
		}
	}
	for k, n := range want {
		if dontCare[k.obs] {
			continue
		}
		if got[k] != n {
			return x.viol("event", "%v: observer o%d %v expected %d callback(s) for entity %v, got %d (all callbacks: %v)", *op, k.obs, x.M.Obs[k.obs], n, k.ent, got[k], x.cbs)
		}
	}
	for k, n := range got {
		if dontCare[k.obs] {
			continue
		}
		if want[k] != n {
			return x.viol("event", "%v: observer o%d %v fired %d time(s) for entity %v, expected %d (all callbacks: %v)", *op, k.obs, x.M.Obs[k.obs], n, k.ent, want[k], x.cbs)
		}
	}
	return nil
}

// run performs the real call(s) for op. res is the model's expectation.
func (x *World) run(op *model.Op, res *model.Result) *Violation {
	w := x.W
	switch op.K {
	case model.OpNewPlain:
		e := w.NewEntity()
		if !res.Panics {
			x.register(res.Created[0], e)
		}
	case model.OpNewEntities:
		var got []ecs.Entity
		var fn func(ecs.Entity)
		lockedOK := true
		if op.Fn {
			fn = func(e ecs.Entity) {
				got = append(got, e)
				if !w.IsLocked() {
					lockedOK = false
				}
				if op.Leak && x.leaked == nil {
					// a query opened inside the callback and still open when the operation returns
					q := ecs.NewFilter0(w).Query()
					x.leaked = &q
				}
			}
		}
		known := x.aliveHandles()
		w.NewEntities(op.N, fn)
		if res.Panics {
			return nil
		}
		if op.Fn {
			if len(got) != op.N {
				return x.viol("batch", "NewEntities(%d) ran the callback %d times", op.N, len(got))
			}
			if !lockedOK {
				return x.viol("lock", "world not locked during NewEntities callback")
			}
		}
		return x.adoptCreated(res.Created, got, known)
	case model.OpNew:
		tuple := op.Tuple()
		m := x.mapper(op.Path, tuple)
		var e ecs.Entity
		i := -1
		if !res.Panics {
			i = res.Created[0]
		}
		rels := x.relArgs(op.T)
		switch op.Init {
		case model.InitValue:
			var vals []int64
			if i >= 0 {
				vals = x.vals(i, tuple)
			} else {
				vals = make([]int64, len(tuple))
			}
			e = m.NewEntity(vals, rels)
		case model.InitFn:
			var fn func([]unsafe.Pointer)
			if i >= 0 {
				fn = x.writer(i, tuple)
			} else {
				fn = func([]unsafe.Pointer) {}
			}
			e = m.NewEntityFn(fn, rels)
		default:
			e = m.NewEntityFn(nil, rels)
		}
		if i >= 0 {
			x.register(i, e)
		}
	case model.OpNewBatch:
		tuple := op.Tuple()
		m := x.mapper(op.Path, tuple)
		rels := x.relArgs(op.T)
		known := x.aliveHandles()
		var got []ecs.Entity
		switch {
		case op.Init == model.InitValue && !op.Fn:
			var vals []int64
			if !res.Panics {
				vals = x.vals(res.Created[0], tuple)
			} else {
				vals = make([]int64, len(tuple))
			}
			m.NewBatch(op.N, vals, rels)
		case op.Init == model.InitNil && !op.Fn:
			m.NewBatchFn(op.N, nil, rels)
		default:
			k := 0
			lockedOK := true
			m.NewBatchFn(op.N, func(e ecs.Entity, p []unsafe.Pointer) {
				if !w.IsLocked() {
					lockedOK = false
				}
				got = append(got, e)
				if k < len(res.Created) && op.Init != model.InitNil {
					x.writer(res.Created[k], tuple)(p)
				}
				k++
			}, rels)
			if res.Panics {
				return nil
			}
			if k != op.N {
				return x.viol("batch", "NewBatchFn(%d) ran the callback %d times", op.N, k)
			}
			if !lockedOK {
				return x.viol("lock", "world not locked during NewBatchFn callback")
			}
		}
		if res.Panics {
			return nil
		}
		return x.adoptCreated(res.Created, got, known)
	case model.OpCopy:
		e := w.CopyEntity(x.H[op.E])
		if !res.Panics {
			x.register(res.Created[0], e)
		}
	case model.OpAdd:
		tuple := op.Tuple()
		rels := x.relArgs(op.T)
		h := x.H[op.E]
		if op.Path == model.PathExchange {
			ex := x.exchanger(op.Path, tuple, nil)
			switch op.Init {
			case model.InitValue:
				ex.Add(h, x.vals(op.E, tuple), rels)
			case model.InitFn:
				ex.AddFn(h, x.writer(op.E, tuple), rels)
			default:
				ex.AddFn(h, nil, rels)
			}
			return nil
		}
		m := x.mapper(op.Path, tuple)
		switch op.Init {
		case model.InitValue:
			m.Add(h, x.vals(op.E, tuple), rels)
		case model.InitFn:
			m.AddFn(h, x.writer(op.E, tuple), rels)
		default:
			m.AddFn(h, nil, rels)
		}
	case model.OpRemove:
		h := x.H[op.E]
		if op.Path == model.PathExchange {
			x.exchanger(op.Path, exAddTuple(op), rmTuple(op)).Remove(h)
			return nil
		}
		x.mapper(op.Path, rmTuple(op)).Remove(h)
	case model.OpExchange:
		tuple := op.Tuple()
		rels := x.relArgs(op.T)
		h := x.H[op.E]
		path := op.Path
		if path != model.PathUnsafe {
			path = model.PathExchange
		}
		ex := x.exchanger(path, tuple, op.Rm.List())
		if len(tuple) == 0 {
			// pure removal through Exchange (ID-based only)
			ex.Exchange(h, nil, rels)
			return nil
		}
		switch op.Init {
		case model.InitValue:
			ex.Exchange(h, x.vals(op.E, tuple), rels)
		case model.InitFn:
			ex.ExchangeFn(h, x.writer(op.E, tuple), rels)
		default:
			ex.ExchangeFn(h, nil, rels)
		}
	case model.OpSet:
		tuple := op.Tuple()
		x.mapper(op.Path, tuple).Set(x.H[op.E], x.vals(op.E, tuple))
	case model.OpWrite:
		tuple := op.Tuple()
		p := x.mapper(op.Path, tuple).Get(x.H[op.E])
		for k, c := range tuple {
			if p[k] == nil {
				return x.viol("value", "Get(%v) returned nil for %s of entity #%d", tuple, c, op.E)
			}
			ct.Write(c, p[k], x.M.Ents[op.E].Val[c])
		}
	case model.OpSetRel:
		var tuple []ct.Comp
		for _, r := range op.T {
			tuple = append(tuple, r.C)
		}
		if op.Ord != nil {
			tuple = op.Ord
		}
		x.mapper(op.Path, tuple).SetRelations(x.H[op.E], x.relArgs(op.T))
	case model.OpRemoveEntity:
		w.RemoveEntity(x.H[op.E])
	case model.OpAddBatch, model.OpRemoveBatch, model.OpExchangeBatch, model.OpSetRelBatch, model.OpRemoveEntities:
		return x.runBatch(op, res)
	case model.OpRegister:
		x.filter(op.F).Register()
	case model.OpUnregister:
		x.filter(op.F).Unregister()
	case model.OpOpen:
		q := x.filter(op.F).Query(x.relArgs(op.QT))
		x.queries[op.Q] = qslot{q: q, visited: map[ecs.Entity]bool{}}
	case model.OpNext:
		return x.runNext(op)
	case model.OpClose:
		if s := &x.queries[op.Q]; s.q != nil {
			s.q.Close()
		}
	case model.OpCount:
		return x.runCount(op)
	case model.OpTouch:
		q := x.filter(op.F).Query(x.relArgs(op.QT))
		if !w.IsLocked() {
			q.Close()
			return x.viol("lock", "world not locked while a query is open")
		}
		q.Close()
		q.Close()
	case model.OpShrink:
		w.Shrink()
	case model.OpShrinkLimit:
		// without a virtual clock: a zero limit stops after the first change
		for k := 0; ; k++ {
			if !w.Shrink(0) {
				break
			}
			if k > 10000 {
				return x.viol("hang", "Shrink(0) keeps reporting remaining work after %d calls", k)
			}
		}
	case model.OpReset:
		w.Reset()
		if !res.Panics {
			for i := range x.filters {
				// filter objects survive a Reset (they can be registered again), except those
				// with a fixed pre-Reset target handle (handles restart after Reset)
				if !x.M.Created[i] {
					x.filters[i] = nil
				}
			}
			for i := range x.queries {
				x.queries[i] = qslot{}
			}
		}
	case model.OpStats:
		return x.checkStats()
	case model.OpObserve:
		x.observe(op.O)
	case model.OpUnobserve:
		x.obs[op.O].Unregister()
	case model.OpEmit:
		ev := w.Event(x.events[model.EvCustom+op.N])
		if op.Cs != 0 {
			api.Spread(op.Cs.List(), func(s []ecs.Comp) { ev = ev.For(s...) })
		}
		ev.Emit(x.handle(op.E))
	case model.OpLeakClose:
		if x.leaked != nil {
			x.leaked.Close()
			x.leaked = nil
		}
	case model.OpGC:
		runtime.GC()
	case model.OpResAdd, model.OpResRemove, model.OpRegisterComp, model.OpDumpLoad, model.OpInvalid, model.OpLoadEntities:
		return x.runMisc(op, res)
	default:
		harness("unhandled op kind %v", op.K)
	}
	return nil
}

func compsOf(cs []ct.Comp) []ecs.Comp {
	out := make([]ecs.Comp, len(cs))
	for i, c := range cs {
		out[i] = ct.CompOf(c)
	}
	return out
}

// aliveHandles returns the set of handles of model-alive entities registered so far
// (before the current op's creations).
func (x *World) aliveHandles() map[ecs.Entity]bool {
	out := map[ecs.Entity]bool{}
	for i := range x.H {
		if i < len(x.M.Ents) && x.byHandle[x.H[i]] == i {
			out[x.H[i]] = true
		}
	}
	return out
}

// adoptCreated binds handles of batch-created entities to the model entities.
// got (from a callback) is authoritative if present; otherwise new handles are found by a
// Filter0 query (everything alive that was not known before).
func (x *World) adoptCreated(created []int, got []ecs.Entity, known map[ecs.Entity]bool) *Violation {
	if len(got) == 0 && len(created) > 0 {
		f := api.TypedFilter(x.Env, nil)
		q := f.Query(nil)
		n := 0
		for q.Next() {
			e := q.Entity()
			if !known[e] || !x.knownAlive(e) {
				got = append(got, e)
			}
			n++
			if n > len(x.M.Ents)+8 {
				q.Close()
				return x.viol("hang", "Filter0 query does not terminate")
			}
		}
		sort.Slice(got, func(i, j int) bool {
			if got[i].ID() != got[j].ID() {
				return got[i].ID() < got[j].ID()
			}
			return got[i].Gen() < got[j].Gen()
		})
	}
	if len(got) != len(created) {
		return x.viol("batch", "batch creation: expected %d new entities, found %d (%v)", len(created), len(got), got)
	}
	for k, i := range created {
		x.register(i, got[k])
	}
	return nil
}

func (x *World) knownAlive(e ecs.Entity) bool {
	i, ok := x.byHandle[e]
	if !ok {
		return false
	}
	// entities created by the current op are not registered yet, so model-alive
	// entities with a handle are exactly the previously alive ones
	return i < len(x.H) && x.M.Ents[i].Alive
}

func (x *World) runBatch(op *model.Op, res *model.Result) *Violation {
	fl := x.filter(op.F)
	batch := fl.Batch(x.relArgs(op.QT))
	w := x.W
	seen := map[ecs.Entity]int{}
	lockedOK := true
	note := func(e ecs.Entity) {
		seen[e]++
		if !w.IsLocked() {
			lockedOK = false
		}
		x.probeLocked(e)
	}
	tuple := op.Tuple()
	rels := x.relArgs(op.T)
	// callback writing the model values of whichever entity it is handed
	cbPtr := func(e ecs.Entity, p []unsafe.Pointer) {
		note(e)
		i, ok := x.byHandle[e]
		if !ok || op.Init == model.InitNil {
			return
		}
		x.writer(i, tuple)(p)
	}
	cbEnt := func(e ecs.Entity) { note(e) }
	var bvals []int64
	if op.Init == model.InitValue && len(res.Selected) > 0 {
		bvals = x.vals(res.Selected[0], tuple)
	} else {
		bvals = make([]int64, len(tuple))
	}
	usedFn := false
	switch op.K {
	case model.OpAddBatch:
		if op.Path == model.PathExchange {
			ex := x.exchanger(op.Path, tuple, nil)
			if op.Fn || op.Init == model.InitFn {
				usedFn = true
				ex.AddBatchFn(batch, cbPtr, rels)
			} else if op.Init == model.InitNil {
				ex.AddBatchFn(batch, nil, rels)
			} else {
				ex.AddBatch(batch, bvals, rels)
			}
		} else {
			m := x.mapper(op.Path, tuple)
			if op.Fn || op.Init == model.InitFn {
				usedFn = true
				m.AddBatchFn(batch, cbPtr, rels)
			} else if op.Init == model.InitNil {
				m.AddBatchFn(batch, nil, rels)
			} else {
				m.AddBatch(batch, bvals, rels)
			}
		}
	case model.OpRemoveBatch:
		var fn func(ecs.Entity)
		if op.Fn {
			usedFn = true
			fn = cbEnt
		}
		if op.Path == model.PathExchange {
			x.exchanger(op.Path, exAddTuple(op), rmTuple(op)).RemoveBatch(batch, fn)
		} else {
			x.mapper(op.Path, rmTuple(op)).RemoveBatch(batch, fn)
		}
	case model.OpExchangeBatch:
		ex := x.exchanger(model.PathExchange, tuple, op.Rm.List())
		if op.Fn || op.Init == model.InitFn {
			usedFn = true
			ex.ExchangeBatchFn(batch, cbPtr, rels)
		} else if op.Init == model.InitNil {
			ex.ExchangeBatchFn(batch, nil, rels)
		} else {
			ex.ExchangeBatch(batch, bvals, rels)
		}
	case model.OpSetRelBatch:
		var rt []ct.Comp
		for _, r := range op.T {
			rt = append(rt, r.C)
		}
		if op.Ord != nil {
			rt = op.Ord
		}
		var fn func(ecs.Entity)
		if op.Fn {
			usedFn = true
			fn = cbEnt
		}
		x.mapper(op.Path, rt).SetRelationsBatch(batch, fn, rels)
	case model.OpRemoveEntities:
		var fn func(ecs.Entity)
		if op.Fn {
			usedFn = true
			fn = cbEnt
		}
		w.RemoveEntities(batch, fn)
	}
	if res.Panics || !usedFn {
		return nil
	}
	if !lockedOK {
		return x.viol("lock", "%v: world not locked during batch callback", *op)
	}
	// selection: callback exactly once per selected entity. SetRelBatch skips entities whose
	// targets do not change (documented no-op), so only changed ones are required there.
	want := map[ecs.Entity]bool{}
	for _, i := range res.Selected {
		want[x.H[i]] = true
	}
	if op.K == model.OpSetRelBatch {
		want = map[ecs.Entity]bool{}
		for _, i := range res.Touched {
			want[x.H[i]] = true
		}
	}
	for e, n := range seen {
		if n != 1 {
			return x.viol("batch", "%v: callback ran %d times for %v", *op, n, e)
		}
		if !want[e] {
			if op.K == model.OpSetRelBatch && x.inSelected(res, e) {
				continue
			}
			return x.viol("batch", "%v: callback ran for unselected entity %v", *op, e)
		}
	}
	for e := range want {
		if seen[e] != 1 {
			return x.viol("batch", "%v: callback did not run for selected entity %v", *op, e)
		}
	}
	return nil
}

func (x *World) inSelected(res *model.Result, e ecs.Entity) bool {
	for _, i := range res.Selected {
		if x.H[i] == e {
			return true
		}
	}
	return false
}

func (x *World) runNext(op *model.Op) *Violation {
	s := &x.queries[op.Q]
	mq := &x.M.Queries[op.Q] // already reflects the model after this Next
	// Next on a finished or closed query is misuse (C20), never issued here.
	if s.q == nil || !x.slotOpen[op.Q] {
		return nil
	}
	ok := s.q.Next()
	wantOK := mq.Open
	if ok != wantOK {
		return x.viol("query", "q%d (f%d %v): Next returned %v after %d entities, model expects %d entities", op.Q, mq.F, x.M.Filters[mq.F], ok, len(s.order), len(mq.Expected))
	}
	if !ok {
		// exhausted: visited set must equal expected
		for _, i := range mq.Expected {
			if !s.visited[x.H[i]] {
				return x.viol("query", "q%d: entity #%d %v was not visited", op.Q, i, x.H[i])
			}
		}
		return nil
	}
	e := s.q.Entity()
	if s.visited[e] {
		return x.viol("query", "q%d (f%d): entity %v visited twice", op.Q, mq.F, e)
	}
	s.visited[e] = true
	s.order = append(s.order, e)
	i, known := x.byHandle[e]
	if !known || !x.M.Ents[i].Alive || !contains(mq.Expected, i) {
		return x.viol("query", "q%d (f%d %v): visited entity %v that does not match", op.Q, mq.F, x.M.Filters[mq.F], e)
	}
	return x.checkQueryRow(s.q, &x.M.Filters[mq.F], i, e)
}

func contains(s []int, v int) bool {
	for _, x := range s {
		if x == v {
			return true
		}
	}
	return false
}

func (x *World) runCount(op *model.Op) *Violation {
	s := &x.queries[op.Q]
	mq := &x.M.Queries[op.Q]
	if s.q == nil || !mq.Open {
		return nil
	}
	n := s.q.Count()
	if n != len(mq.Expected) {
		return x.viol("query", "q%d (f%d %v): Count()=%d, model expects %d", op.Q, mq.F, x.M.Filters[mq.F], n, len(mq.Expected))
	}
	seen := map[ecs.Entity]bool{}
	for k := 0; k < n; k++ {
		e := s.q.EntityAt(k)
		if seen[e] {
			return x.viol("query", "q%d: EntityAt returned %v twice", op.Q, e)
		}
		seen[e] = true
		i, ok := x.byHandle[e]
		if !ok || !contains(mq.Expected, i) {
			return x.viol("query", "q%d: EntityAt(%d)=%v does not match the filter", op.Q, k, e)
		}
	}
	return nil
}

// probeLocked attempts structural operations from inside a callback that runs on a locked
// world; each must panic (C07). The state comparison after the operation shows "without effect".
func (x *World) probeLocked(e ecs.Entity) {
	if !x.Or.ProbeCb || x.cbViol != nil {
		return
	}
	w := x.W
	attempts := []struct {
		name string
		f    func()
	}{
		{"World.NewEntity", func() { w.NewEntity() }},
		{"World.RemoveEntity", func() { w.RemoveEntity(e) }},
		{"World.CopyEntity", func() { w.CopyEntity(e) }},
		{"Unsafe.Add", func() { w.Unsafe().Add(e, x.Env.ID(ct.T9)) }},
		{"Unsafe.NewEntity", func() { w.Unsafe().NewEntity(x.Env.ID(ct.T9)) }},
		{"World.NewEntities", func() { w.NewEntities(2, nil) }},
		{"World.Reset", func() { w.Reset() }},
		{"World.Shrink", func() { w.Shrink() }},
	}
	for _, a := range attempts {
		if panicked, _ := try(a.f); !panicked {
			x.cbViol = x.viol("lock", "%v: %s called from inside a callback on a locked world did not panic", *x.curOp, a.name)
			return
		}
	}
}

// NextPad computes the number of filler archetypes with which a re-run of the current
// history would end with the table slice (mode 1) or archetype slice (mode 2) exactly at
// its capacity (16, 32, 64: ark starts both with capacity 16 and Go doubles).
func (x *World) NextPad(mode int) int {
	st := x.W.Stats()
	count := 0
	if mode == 1 {
		for i := range st.Archetypes {
			count += len(st.Archetypes[i].Tables) + st.Archetypes[i].FreeTables
		}
	} else {
		count = len(st.Archetypes)
	}
	base := count - x.Cfg.Pad
	for _, c := range []int{16, 32, 64} {
		if base <= c {
			pad := c - base
			if x.Cfg.Offset+len(x.Cfg.Universe)+pad > 200 {
				return 0
			}
			return pad
		}
	}
	return 0
}

// rmTuple: the ordered tuple for a removal (explicit order if the op gives one for exactly Rm).
// exAddTuple: for removals through ExchangeN the type parameters (which the removal ignores) select the
// arity under test: Op.Ord, if it is given and is not the removed tuple itself.
func exAddTuple(op *model.Op) []ct.Comp {
	if op.Ord != nil && ct.Of(op.Ord...) != op.Rm {
		return op.Ord
	}
	return nil
}

func rmTuple(op *model.Op) []ct.Comp {
	if op.Ord != nil && ct.Of(op.Ord...) == op.Rm {
		return op.Ord
	}
	return op.Rm.List()
}
