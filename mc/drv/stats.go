package drv

import (
	"encoding/json"
	"fmt"
	"sort"

	"github.com/mlange-42/ark/ecs"
	"github.com/mlange-42/ark/ecs/stats"

	"verif/mc/ct"
	"verif/mc/model"
)

func nextPow2(n int) int {
	p := 1
	for p < n {
		p *= 2
	}
	return p
}

func (x *World) initCaps() (int, int) {
	c, r := x.Cfg.Cap, x.Cfg.CapRel
	if c == 0 {
		c, r = 1024, 128
	} else if r == 0 {
		r = c
	}
	return c, r
}

// checkStats is the C19 oracle: internal consistency of World.Stats() and agreement with the model.
func (x *World) checkStats() *Violation {
	st := x.W.Stats()
	return x.checkStatsValue(st)
}

func (x *World) checkStatsValue(st *stats.World) *Violation {
	m := x.M
	en := st.Entities
	if en.Used != m.NumAlive() {
		return x.viol("stats", "Entities.Used=%d, %d entities are alive", en.Used, m.NumAlive())
	}
	if en.Total != en.Used+en.Recycled {
		return x.viol("stats", "Entities.Total=%d != Used=%d + Recycled=%d", en.Total, en.Used, en.Recycled)
	}
	if en.Total > en.Capacity {
		return x.viol("stats", "Entities.Total=%d exceeds Capacity=%d", en.Total, en.Capacity)
	}
	if st.Locked != m.Locked() {
		return x.viol("stats", "Locked=%v, model has %d open queries", st.Locked, m.OpenCount())
	}
	if st.CachedFilters != m.NumRegistered() {
		return x.viol("stats", "CachedFilters=%d, %d filters are registered", st.CachedFilters, m.NumRegistered())
	}
	if st.Observers != m.NumObservers() {
		return x.viol("stats", "Observers=%d, %d observers are registered", st.Observers, m.NumObservers())
	}
	// model population per component set
	pop := map[ct.Set]int{}
	for i := range m.Ents {
		if m.Ents[i].Alive {
			pop[m.Ents[i].Comps]++
		}
	}
	seen := map[string]bool{}
	sumSize, sumMem, sumUsed := 0, 0, 0
	for ai := range st.Archetypes {
		a := &st.Archetypes[ai]
		ids := append([]uint8(nil), a.ComponentIDs...)
		sort.Slice(ids, func(i, j int) bool { return ids[i] < ids[j] })
		key := fmt.Sprint(ids)
		if seen[key] {
			return x.viol("stats", "two archetypes with the same component set %v", ids)
		}
		seen[key] = true
		mpe := 8
		var set ct.Set
		known := true
		for j, tp := range a.ComponentTypes {
			mpe += int(tp.Size())
			c, ok := x.compByIndex(a.ComponentIDs[j])
			if !ok {
				known = false
			} else {
				set |= ct.Of(c)
			}
		}
		if a.MemoryPerEntity != mpe {
			return x.viol("stats", "archetype %v: MemoryPerEntity=%d, expected 8+sum of component sizes=%d", ids, a.MemoryPerEntity, mpe)
		}
		tSize, tCap := 0, 0
		for ti := range a.Tables {
			t := &a.Tables[ti]
			if t.Size > t.Capacity {
				return x.viol("stats", "archetype %v table %d: Size=%d > Capacity=%d", ids, ti, t.Size, t.Capacity)
			}
			if t.Memory != t.Capacity*mpe || t.MemoryUsed != t.Size*mpe {
				return x.viol("stats", "archetype %v table %d: Memory=%d/MemoryUsed=%d, expected %d/%d", ids, ti, t.Memory, t.MemoryUsed, t.Capacity*mpe, t.Size*mpe)
			}
			tSize += t.Size
			tCap += t.Capacity
		}
		if a.Size != tSize {
			return x.viol("stats", "archetype %v: Size=%d != sum of table sizes %d", ids, a.Size, tSize)
		}
		if a.Capacity < tCap {
			return x.viol("stats", "archetype %v: Capacity=%d < sum of table capacities %d", ids, a.Capacity, tCap)
		}
		if a.FreeTables == 0 && a.Capacity != tCap {
			return x.viol("stats", "archetype %v: Capacity=%d != sum of table capacities %d with no free tables", ids, a.Capacity, tCap)
		}
		if a.Memory != a.Capacity*mpe || a.MemoryUsed != a.Size*mpe {
			return x.viol("stats", "archetype %v: Memory=%d/MemoryUsed=%d, expected %d/%d", ids, a.Memory, a.MemoryUsed, a.Capacity*mpe, a.Size*mpe)
		}
		if known && a.Size != pop[set] {
			return x.viol("stats", "archetype %s: Size=%d, model has %d such entities", set, a.Size, pop[set])
		}
		if known {
			delete(pop, set)
		}
		nrel := 0
		for _, c := range set.List() {
			if ct.IsRel(c) {
				nrel++
			}
		}
		if known && a.NumRelations != nrel {
			return x.viol("stats", "archetype %s: NumRelations=%d, expected %d", set, a.NumRelations, nrel)
		}
		sumSize += a.Size
		sumMem += a.Memory
		sumUsed += a.MemoryUsed
	}
	for set, n := range pop {
		if n > 0 {
			return x.viol("stats", "no archetype reported for component set %s (%d entities)", set, n)
		}
	}
	if sumSize != en.Used {
		return x.viol("stats", "sum of archetype sizes %d != Entities.Used %d", sumSize, en.Used)
	}
	if st.Memory < sumMem || st.MemoryUsed < sumUsed {
		return x.viol("stats", "world Memory=%d/MemoryUsed=%d below archetype sums %d/%d", st.Memory, st.MemoryUsed, sumMem, sumUsed)
	}
	return nil
}

func (x *World) compByIndex(id uint8) (ct.Comp, bool) {
	for c := ct.Comp(0); c < ct.NumComps; c++ {
		if x.Env.Reg[c] && x.Env.IDs[c].Index() == id {
			return c, true
		}
	}
	return 0, false
}

// CheckShrunk is the capacity clause of C15, evaluated right after an unbounded Shrink.
func (x *World) CheckShrunk() *Violation {
	st := x.W.Stats()
	capN, capR := x.initCaps()
	for ai := range st.Archetypes {
		a := &st.Archetypes[ai]
		init := capN
		if a.NumRelations > 0 {
			init = capR
		}
		tCap := 0
		for ti := range a.Tables {
			t := &a.Tables[ti]
			limit := nextPow2(t.Size)
			if init > limit {
				limit = init
			}
			if t.Capacity < t.Size || t.Capacity > limit {
				return x.viol("shrink", "after Shrink: archetype %v table %d has Size=%d Capacity=%d, allowed capacity is %d..%d", a.ComponentIDs, ti, t.Size, t.Capacity, t.Size, limit)
			}
			tCap += t.Capacity
		}
		if free := a.Capacity - tCap; free > a.FreeTables*init {
			return x.viol("shrink", "after Shrink: archetype %v holds %d rows of capacity in %d free tables (initial capacity %d)", a.ComponentIDs, free, a.FreeTables, init)
		}
	}
	return nil
}

// StatsDigest returns a canonical JSON of World.Stats() (deep copy through marshalling).
func (x *World) StatsDigest() string {
	st := x.W.Stats()
	b, _ := json.Marshal(st)
	return string(b)
}

var _ = ecs.Entity{}
var _ = model.ZeroTarget
