package drv

import (
	"reflect"
	"verif/mc/api"
	"verif/mc/ct"

	"github.com/mlange-42/ark/ecs"

	"verif/mc/model"
)

type res0 struct{ V int64 }
type res1 struct{ V int64 }
type res2 struct{ V, W int64 }
type res3 struct{ S string }

var resTypes = [4]reflect.Type{reflect.TypeFor[res0](), reflect.TypeFor[res1](), reflect.TypeFor[res2](), reflect.TypeFor[res3]()}

func (x *World) runMisc(op *model.Op, res *model.Result) *Violation {
	switch op.K {
	case model.OpResAdd:
		id := ecs.ResourceTypeID(x.W, resTypes[op.N])
		v := &res0{V: x.M.Res[op.N]}
		x.W.Resources().Add(id, v)
	case model.OpResRemove:
		id := ecs.ResourceTypeID(x.W, resTypes[op.N])
		x.W.Resources().Remove(id)
	case model.OpInvalid:
		return x.runInvalid(op, res)
	case model.OpRegisterComp:
		// registers dummy type number Offset+NDummies (model already counted it unless it must panic)
		n := x.Cfg.Offset + x.M.NDummies
		if res.Panics {
			n++
		}
		before := len(ecs.ComponentIDs(x.W))
		id := ecs.TypeID(x.W, reflect.ArrayOf(n, reflect.TypeFor[int8]()))
		if int(id.Index()) != before {
			return x.viol("registry", "new component type got ID %d, expected the next free ID %d", id.Index(), before)
		}
	case model.OpLoadEntities:
		d := x.W.Unsafe().DumpEntities()
		x.W.Unsafe().LoadEntities(&d)
	default:
		harness("op %v not supported by the general driver", op.K)
	}
	return nil
}

// Invalid call kinds (Op.Inv).
const (
	InvStale            = 1  // op.N = method code, op.E = dead entity index or ZeroTarget for the zero entity
	InvAddHas           = 2  // add components the entity already has
	InvRemLacks         = 3  // remove components the entity lacks
	InvEmpty            = 4  // empty component list (op.N: 0 Unsafe.Add, 1 Unsafe.Remove, 2 Unsafe.Exchange)
	InvNoTarget         = 5  // relation component without target (op.N: 0 new entity, 1 add)
	InvDeadTgt          = 6  // dead entity as relation target (op.N: 0 new entity, 1 add, 2 set relation)
	InvRelNotRel        = 7  // relation target for a non-relation component
	InvResAdd           = 8  // add a resource that exists (op.N)
	InvResRemove        = 9  // remove a resource that is absent (op.N)
	InvQueryRelIdx      = 10 // UnsafeFilter.Query with an index relation (forbidden in the ID-based API); op.F unsafe filter
	InvQueryNotInFilter = 11 // typed Filter.Query with a relation component that is not part of the filter
	InvQueryDeadTarget  = 12 // typed Filter.Query with a dead entity as target (op.QT)
	InvDupRemove        = 13 // the same component twice in a remove list (op.N: 0 Unsafe.Remove, 1 Unsafe.Exchange, 2 ExchangeN.Removes(c,c).Remove)
	InvDupAdd           = 14 // the same component twice in an add list (Unsafe.Add / Unsafe.NewEntity)
)

// Method codes for InvStale.
const (
	MGet = iota
	MHasAll
	MAdd
	MAddFn
	MSet
	MRemove
	MGetRelation
	MSetRelations
	MExAdd = 10 + iota - 8
	MExAddFn
	MExRemove
	MExExchange
	MExExchangeFn
	MRemoveEntity = 20
	MCopyEntity   = 21
	MUnsafeIDs    = 30
	MUnsafeGet    = 31
	MUnsafeHas    = 32
	MUnsafeGetRel = 33
)

func (x *World) runInvalid(op *model.Op, res *model.Result) *Violation {
	u := x.W.Unsafe()
	tuple := op.Tuple()
	zeros := make([]int64, len(tuple))
	rels := x.relArgs(op.T)
	switch op.Inv {
	case InvStale:
		h := x.handle(op.E)
		switch {
		case op.N <= MSetRelations:
			m := x.mapper(op.Path, tuple)
			switch op.N {
			case MGet:
				m.Get(h)
			case MHasAll:
				m.HasAll(h)
			case MAdd:
				m.Add(h, zeros, rels)
			case MAddFn:
				m.AddFn(h, nil, rels)
			case MSet:
				m.Set(h, zeros)
			case MRemove:
				m.Remove(h)
			case MGetRelation:
				m.GetRelation(h, op.T[0].C)
			case MSetRelations:
				m.SetRelations(h, rels)
			}
		case op.N <= MExExchangeFn:
			path := op.Path
			if path != model.PathUnsafe {
				path = model.PathExchange
			}
			ex := x.exchanger(path, tuple, op.Rm.List())
			switch op.N {
			case MExAdd:
				ex.Add(h, zeros, rels)
			case MExAddFn:
				ex.AddFn(h, nil, rels)
			case MExRemove:
				ex.Remove(h)
			case MExExchange:
				ex.Exchange(h, zeros, rels)
			case MExExchangeFn:
				ex.ExchangeFn(h, nil, rels)
			}
		case op.N == MRemoveEntity:
			x.W.RemoveEntity(h)
		case op.N == MCopyEntity:
			x.W.CopyEntity(h)
		case op.N == MUnsafeIDs:
			u.IDs(h)
		case op.N == MUnsafeGet:
			u.Get(h, x.Env.ID(tuple[0]))
		case op.N == MUnsafeHas:
			u.Has(h, x.Env.ID(tuple[0]))
		case op.N == MUnsafeGetRel:
			u.GetRelation(h, x.Env.ID(tuple[0]))
		}
	case InvAddHas:
		h := x.H[op.E]
		if op.Path == model.PathExchange {
			x.exchanger(op.Path, tuple, nil).Add(h, zeros, rels)
		} else {
			x.mapper(op.Path, tuple).Add(h, zeros, rels)
		}
	case InvRemLacks:
		h := x.H[op.E]
		if op.Path == model.PathExchange {
			x.exchanger(op.Path, nil, op.Rm.List()).Remove(h)
		} else {
			x.mapper(op.Path, op.Rm.List()).Remove(h)
		}
	case InvEmpty:
		h := x.H[op.E]
		switch op.N {
		case 0:
			u.Add(h)
		case 1:
			u.Remove(h)
		case 2:
			u.Exchange(h, nil, nil)
		}
	case InvNoTarget, InvDeadTgt, InvRelNotRel:
		m := x.mapper(op.Path, tuple)
		switch op.N {
		case 0:
			m.NewEntity(zeros, rels)
		case 1:
			m.Add(x.H[op.E], zeros, rels)
		case 2:
			m.SetRelations(x.H[op.E], rels)
		}
	case InvQueryRelIdx:
		spec := &x.M.Filters[op.F]
		uf := ecs.NewUnsafeFilter(x.W, x.Env.IDList(spec.Params)...)
		q := uf.Query(ecs.RelIdx(0, ecs.Entity{}))
		q.Close()
	case InvQueryNotInFilter:
		fl := x.buildFilter(&x.M.Filters[op.F])
		q := fl.Query([]api.RelArg{{Comp: ct.R2, Target: ecs.Entity{}}})
		q.Close()
	case InvQueryDeadTarget:
		fl := x.buildFilter(&x.M.Filters[op.F])
		q := fl.Query(x.relArgs(op.QT))
		q.Close()
	case InvDupRemove:
		h := x.H[op.E]
		c := op.Rm.List()[0]
		id := x.Env.ID(c)
		switch op.N {
		case 0:
			u.Remove(h, id, id)
		case 1:
			u.Exchange(h, []ecs.ID{x.Env.ID(ct.T9)}, []ecs.ID{id, id})
		case 2:
			api.TypedExchanger(x.Env, []ct.Comp{ct.T9}, []ct.Comp{c, c}).Remove(h)
		case 3:
			api.TypedExchanger(x.Env, []ct.Comp{ct.T9}, []ct.Comp{c, c}).Exchange(h, []int64{0}, nil)
		}
	case InvDupAdd:
		c := op.Tuple()[0]
		id := x.Env.ID(c)
		if op.N == 0 {
			u.Add(x.H[op.E], id, id)
		} else {
			u.NewEntity(id, id)
		}
	case InvResAdd:
		x.W.Resources().Add(ecs.ResourceTypeID(x.W, resTypes[op.N]), &res0{V: -1})
	case InvResRemove:
		x.W.Resources().Remove(ecs.ResourceTypeID(x.W, resTypes[op.N]))
	default:
		harness("unknown invalid kind %d", op.Inv)
	}
	return nil
}

func (x *World) checkResources() *Violation {
	for n := range resTypes {
		id := ecs.ResourceTypeID(x.W, resTypes[n])
		has := x.W.Resources().Has(id)
		if has != (x.M.Res[n] != 0) {
			return x.viol("resource", "Resources.Has(%d)=%v, model says %v", n, has, x.M.Res[n] != 0)
		}
		got := x.W.Resources().Get(id)
		if !has {
			if got != nil {
				return x.viol("resource", "Resources.Get(%d) non-nil for an absent resource", n)
			}
			continue
		}
		r, ok := got.(*res0)
		if !ok || r.V != x.M.Res[n] {
			return x.viol("resource", "Resources.Get(%d) = %v, model says token %d", n, got, x.M.Res[n])
		}
	}
	return nil
}

// QueryObject returns the raw query object in a slot (C20 misuse family).
func (x *World) QueryObject(q int) api.Query { return x.queries[q].q }

// DeadSamples exposes deadSamples to scenario probes.
func (x *World) DeadSamples() []int { return x.deadSamples() }
