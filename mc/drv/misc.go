package drv

import (
	"reflect"
	"verif/mc/api"
	"verif/mc/ct"

	"github.com/mlange-42/ark/ecs"

	"verif/mc/model"
)

type res0 struct{ V int64 }
type res1 struct{ V int64 }
type res2 struct{ V, W int64 }
type res3 struct {
	V int64
	S string
}

var resTypes = [4]reflect.Type{reflect.TypeFor[res0](), reflect.TypeFor[res1](), reflect.TypeFor[res2](), reflect.TypeFor[res3]()}

// resAccess bundles the ID-based and the generic access path of one resource type.
type resAccess struct {
	id     ecs.ResID
	add    func(v int64)
	remove func()
	get    func() (int64, bool) // value, present (generic mapper)
	has    func() bool
}

// res returns the access paths of resource n; the ResID and the generic mapper are obtained once
// and kept for the world's lifetime (also across Reset): a type must map to the same ID forever.
func (x *World) res(n int) *resAccess {
	if x.resAcc[n] != nil {
		return x.resAcc[n]
	}
	a := &resAccess{id: ecs.ResourceTypeID(x.W, resTypes[n])}
	switch n {
	case 0:
		m := ecs.NewResource[res0](x.W)
		a.add, a.remove, a.has = func(v int64) { m.Add(&res0{V: v}) }, m.Remove, m.Has
		a.get = func() (int64, bool) {
			if p := m.Get(); p != nil {
				return p.V, true
			}
			return 0, false
		}
	case 1:
		m := ecs.Resource[res1]{}.New(x.W) // the New method form of the constructor
		a.add, a.remove, a.has = func(v int64) { m.Add(&res1{V: v}) }, m.Remove, m.Has
		a.get = func() (int64, bool) {
			if p := m.Get(); p != nil {
				return p.V, true
			}
			return 0, false
		}
	case 2:
		m := ecs.NewResource[res2](x.W)
		a.add, a.remove, a.has = func(v int64) { m.Add(&res2{V: v, W: ^v}) }, m.Remove, m.Has
		a.get = func() (int64, bool) {
			if p := m.Get(); p != nil {
				return p.V, true
			}
			return 0, false
		}
	default:
		m := ecs.Resource[res3]{}.New(x.W)
		a.add, a.remove, a.has = func(v int64) { m.Add(&res3{V: v}) }, m.Remove, m.Has
		a.get = func() (int64, bool) {
			if p := m.Get(); p != nil {
				return p.V, true
			}
			return 0, false
		}
	}
	x.resAcc[n] = a
	return a
}

func resValue(n int, v any) (int64, bool) {
	switch r := v.(type) {
	case *res0:
		return r.V, n == 0
	case *res1:
		return r.V, n == 1
	case *res2:
		return r.V, n == 2
	case *res3:
		return r.V, n == 3
	}
	return 0, false
}

func (x *World) runMisc(op *model.Op, res *model.Result) *Violation {
	switch op.K {
	case model.OpResAdd:
		// alternate between the generic mapper and the ID-based path
		a := x.res(op.N)
		if x.Step%2 == 0 {
			a.add(x.M.Res[op.N])
		} else {
			switch op.N {
			case 0:
				x.W.Resources().Add(a.id, &res0{V: x.M.Res[0]})
			case 1:
				ecs.AddResource(x.W, &res1{V: x.M.Res[1]})
			case 2:
				x.W.Resources().Add(a.id, &res2{V: x.M.Res[2]})
			default:
				ecs.AddResource(x.W, &res3{V: x.M.Res[3]})
			}
		}
	case model.OpResRemove:
		a := x.res(op.N)
		if x.Step%2 == 0 {
			a.remove()
		} else {
			x.W.Resources().Remove(a.id)
		}
	case model.OpInvalid:
		return x.runInvalid(op, res)
	case model.OpRegisterComp:
		// registers dummy type number Offset+NDummies (model already counted it unless it must panic)
		n := x.Cfg.Offset + x.M.NDummies
		if res.Panics {
			n++
		}
		before := ecs.ComponentIDs(x.W)
		id := ecs.TypeID(x.W, reflect.ArrayOf(n, reflect.TypeFor[int8]()))
		for _, b := range before {
			if b == id {
				return x.viol("registry", "new component type got ID %d, which is already in use", id.Index())
			}
		}
		if after := len(ecs.ComponentIDs(x.W)); after != len(before)+1 {
			return x.viol("registry", "registering one component type changed the number of IDs from %d to %d", len(before), after)
		}
	case model.OpLoadEntities:
		d := x.W.Unsafe().DumpEntities()
		x.W.Unsafe().LoadEntities(&d)
	default:
		harness("op %v not supported by the general driver", op.K)
	}
	return nil
}

// Invalid call kinds (Op.Inv).
const (
	InvStale            = 1  // op.N = method code, op.E = dead entity index or ZeroTarget for the zero entity
	InvAddHas           = 2  // add components the entity already has
	InvRemLacks         = 3  // remove components the entity lacks
	InvEmpty            = 4  // empty component list (op.N: 0 Unsafe.Add, 1 Unsafe.Remove, 2 Unsafe.Exchange)
	InvNoTarget         = 5  // relation component without target (op.N: 0 new entity, 1 add)
	InvDeadTgt          = 6  // dead entity as relation target (op.N: 0 new entity, 1 add, 2 set relation)
	InvRelNotRel        = 7  // relation target for a non-relation component
	InvResAdd           = 8  // add a resource that exists (op.N)
	InvResRemove        = 9  // remove a resource that is absent (op.N)
	InvQueryRelIdx      = 10 // UnsafeFilter.Query with an index relation (forbidden in the ID-based API); op.F unsafe filter
	InvQueryNotInFilter = 11 // typed Filter.Query with a relation component that is not part of the filter
	InvQueryDeadTarget  = 12 // typed Filter.Query with a dead entity as target (op.QT)
	InvDupRemove        = 13 // the same component twice in a remove list (op.N: 0 Unsafe.Remove, 1 Unsafe.Exchange, 2 ExchangeN.Removes(c,c).Remove)
	InvDupAdd           = 14 // the same component twice in an add list (Unsafe.Add / Unsafe.NewEntity)
)

// Method codes for InvStale.
const (
	MGet = iota
	MHasAll
	MAdd
	MAddFn
	MSet
	MRemove
	MGetRelation
	MSetRelations
	MExAdd = 10 + iota - 8
	MExAddFn
	MExRemove
	MExExchange
	MExExchangeFn
	MRemoveEntity = 20
	MCopyEntity   = 21
	MUnsafeIDs    = 30
	MUnsafeGet    = 31
	MUnsafeHas    = 32
	MUnsafeGetRel = 33
	MEmit         = 40 // Event.Emit for the handle (the zero entity only together with For(components))
)

func (x *World) runInvalid(op *model.Op, res *model.Result) *Violation {
	u := x.W.Unsafe()
	tuple := op.Tuple()
	zeros := make([]int64, len(tuple))
	rels := x.relArgs(op.T)
	switch op.Inv {
	case InvStale:
		h := x.handle(op.E)
		switch {
		case op.N <= MSetRelations:
			m := x.mapper(op.Path, tuple)
			switch op.N {
			case MGet:
				m.Get(h)
			case MHasAll:
				m.HasAll(h)
			case MAdd:
				m.Add(h, zeros, rels)
			case MAddFn:
				m.AddFn(h, nil, rels)
			case MSet:
				m.Set(h, zeros)
			case MRemove:
				m.Remove(h)
			case MGetRelation:
				m.GetRelation(h, op.T[0].C)
			case MSetRelations:
				m.SetRelations(h, rels)
			}
		case op.N <= MExExchangeFn:
			path := op.Path
			if path != model.PathUnsafe {
				path = model.PathExchange
			}
			ex := x.exchanger(path, tuple, op.Rm.List())
			switch op.N {
			case MExAdd:
				ex.Add(h, zeros, rels)
			case MExAddFn:
				ex.AddFn(h, nil, rels)
			case MExRemove:
				ex.Remove(h)
			case MExExchange:
				ex.Exchange(h, zeros, rels)
			case MExExchangeFn:
				ex.ExchangeFn(h, nil, rels)
			}
		case op.N == MRemoveEntity:
			x.W.RemoveEntity(h)
		case op.N == MCopyEntity:
			x.W.CopyEntity(h)
		case op.N == MUnsafeIDs:
			u.IDs(h)
		case op.N == MUnsafeGet:
			u.Get(h, x.Env.ID(tuple[0]))
		case op.N == MUnsafeHas:
			u.Has(h, x.Env.ID(tuple[0]))
		case op.N == MUnsafeGetRel:
			u.GetRelation(h, x.Env.ID(tuple[0]))
		case op.N == MEmit:
			ev := x.W.Event(x.events[model.EvCustom])
			if op.Cs != 0 {
				api.Spread(op.Cs.List(), func(s []ecs.Comp) { ev = ev.For(s...) })
			}
			ev.Emit(h)
		}
	case InvAddHas:
		h := x.H[op.E]
		if op.Path == model.PathExchange {
			x.exchanger(op.Path, tuple, nil).Add(h, zeros, rels)
		} else {
			x.mapper(op.Path, tuple).Add(h, zeros, rels)
		}
	case InvRemLacks:
		h := x.H[op.E]
		if op.Path == model.PathExchange {
			x.exchanger(op.Path, nil, op.Rm.List()).Remove(h)
		} else {
			x.mapper(op.Path, op.Rm.List()).Remove(h)
		}
	case InvEmpty:
		h := x.H[op.E]
		switch op.N {
		case 0:
			u.Add(h)
		case 1:
			u.Remove(h)
		case 2:
			u.Exchange(h, nil, nil)
		}
	case InvNoTarget, InvDeadTgt, InvRelNotRel:
		m := x.mapper(op.Path, tuple)
		switch op.N {
		case 0:
			m.NewEntity(zeros, rels)
		case 1:
			m.Add(x.H[op.E], zeros, rels)
		case 2:
			m.SetRelations(x.H[op.E], rels)
		}
	case InvQueryRelIdx:
		spec := &x.M.Filters[op.F]
		uf := ecs.NewUnsafeFilter(x.W, x.Env.IDList(spec.Params)...)
		q := uf.Query(ecs.RelIdx(0, ecs.Entity{}))
		q.Close()
	case InvQueryNotInFilter:
		fl := x.buildFilter(&x.M.Filters[op.F])
		q := fl.Query([]api.RelArg{{Comp: ct.R2, Target: ecs.Entity{}}})
		q.Close()
	case InvQueryDeadTarget:
		fl := x.buildFilter(&x.M.Filters[op.F])
		q := fl.Query(x.relArgs(op.QT))
		q.Close()
	case InvDupRemove:
		h := x.H[op.E]
		c := op.Rm.List()[0]
		id := x.Env.ID(c)
		switch op.N {
		case 0:
			u.Remove(h, id, id)
		case 1:
			u.Exchange(h, []ecs.ID{x.Env.ID(ct.T9)}, []ecs.ID{id, id})
		case 2:
			api.TypedExchanger(x.Env, []ct.Comp{ct.T9}, []ct.Comp{c, c}).Remove(h)
		case 3:
			api.TypedExchanger(x.Env, []ct.Comp{ct.T9}, []ct.Comp{c, c}).Exchange(h, []int64{0}, nil)
		}
	case InvDupAdd:
		c := op.Tuple()[0]
		id := x.Env.ID(c)
		if op.N == 0 {
			u.Add(x.H[op.E], id, id)
		} else {
			u.NewEntity(id, id)
		}
	case InvResAdd:
		if x.Step%2 == 0 {
			x.res(op.N).add(-1)
		} else {
			x.W.Resources().Add(x.res(op.N).id, &res0{V: -1})
		}
	case InvResRemove:
		if x.Step%2 == 0 {
			x.res(op.N).remove()
		} else {
			x.W.Resources().Remove(x.res(op.N).id)
		}
	default:
		harness("unknown invalid kind %d", op.Inv)
	}
	return nil
}

func (x *World) checkResources() *Violation {
	for n := range resTypes {
		a := x.res(n)
		if fresh := ecs.ResourceTypeID(x.W, resTypes[n]); fresh != a.id {
			return x.viol("resource", "resource type %d maps to ID %d now, it mapped to ID %d before", n, fresh.Index(), a.id.Index())
		}
		want := x.M.Res[n] != 0
		has := x.W.Resources().Has(a.id)
		if has != want || a.has() != want {
			return x.viol("resource", "resource %d: Resources.Has=%v, Resource[T].Has=%v, model says %v", n, has, a.has(), want)
		}
		got := x.W.Resources().Get(a.id)
		gv, gok := a.get()
		if !want {
			if got != nil || gok {
				return x.viol("resource", "resource %d: Get returns a value for an absent resource", n)
			}
			continue
		}
		v, ok := resValue(n, got)
		if !ok || v != x.M.Res[n] || !gok || gv != v {
			return x.viol("resource", "resource %d: Resources.Get = %v, Resource[T].Get = %d/%v, model says token %d", n, got, gv, gok, x.M.Res[n])
		}
	}
	return nil
}

// QueryObject returns the raw query object in a slot (C20 misuse family).
func (x *World) QueryObject(q int) api.Query { return x.queries[q].q }

// DeadSamples exposes deadSamples to scenario probes.
func (x *World) DeadSamples() []int { return x.deadSamples() }
