package drv

import (
	"reflect"

	"github.com/mlange-42/ark/ecs"

	"verif/mc/model"
)

type res0 struct{ V int64 }
type res1 struct{ V int64 }
type res2 struct{ V, W int64 }
type res3 struct{ S string }

var resTypes = [4]reflect.Type{reflect.TypeFor[res0](), reflect.TypeFor[res1](), reflect.TypeFor[res2](), reflect.TypeFor[res3]()}

func (x *World) runMisc(op *model.Op, res *model.Result) *Violation {
	switch op.K {
	case model.OpResAdd:
		id := ecs.ResourceTypeID(x.W, resTypes[op.N])
		v := &res0{V: x.M.Res[op.N]}
		x.W.Resources().Add(id, v)
	case model.OpResRemove:
		id := ecs.ResourceTypeID(x.W, resTypes[op.N])
		x.W.Resources().Remove(id)
	case model.OpInvalid:
		return x.runInvalid(op, res)
	default:
		harness("op %v not supported by the general driver", op.K)
	}
	return nil
}

func (x *World) runInvalid(op *model.Op, res *model.Result) *Violation {
	harness("invalid ops not implemented yet")
	return nil
}
