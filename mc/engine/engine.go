// Package engine is the bounded exhaustive history explorer (E1): depth-first
// enumeration of all operation sequences over a model-derived alphabet, every
// node executed on a fresh real world by replay, oracles evaluated at the last step.
package engine

import (
	"encoding/json"
	"fmt"
	"hash/fnv"
	"os"
	"runtime"
	"sync"
	"sync/atomic"
	"time"

	"verif/mc/drv"
	"verif/mc/model"
)

// Scenario fixes alphabet, bound and oracle for one exploration.
type Scenario struct {
	Name     string
	Cfgs     []drv.Config
	Filters  []model.FilterSpec
	Obs      []model.ObsSpec
	Slots    int
	Oracle   drv.Oracle
	Preludes [][]model.Op                    // each explored separately; nil = one empty prelude
	Alphabet func(m *model.Model) []model.Op // valid ops in canonical order, simplest first
	Depth    int
	// Leaf is an optional extra oracle run at every node after Observe (e.g. twin-world differential).
	Leaf func(x *drv.World, sc *Scenario, cfg drv.Config, hist []model.Op) *drv.Violation
	// NonTrivial classifies a node's state for the distinct_nontrivial count (nil: every state with >=1 alive entity).
	NonTrivial func(x *drv.World) bool
	// AfterOp is called after each executed op of the last step (for op-specific oracles).
	AfterOp func(x *drv.World, op model.Op) *drv.Violation
	// Probes are state-preserving operations (calls that must be rejected) executed one after
	// the other at every node after the node's own oracle, each followed by a full observation.
	Probes func(x *drv.World) []model.Op
	// PreludeObserve: run the full observation after every prelude op as well (default only at nodes).
	ObserveAll bool
}

// Found is a violation together with the history that produced it.
type Found struct {
	Scenario string
	Cfg      drv.Config
	Prelude  int
	Hist     []model.Op
	V        drv.Violation
	OpKind   string
	Raw      []byte // special checks: self-contained replay data
	Note     string
}

// Report is the outcome of an exploration.
type Report struct {
	Histories   int64 // nodes = histories executed and checked
	Transitions int64 // operations executed on the implementation (incl. replays)
	Oracles     int64
	States      int64 // distinct model states
	NonTrivial  int64 // distinct model states classified non-trivial
	Outcomes    int64 // distinct (state, observation) classes: here distinct model states at leaves
	MaxDepth    int
	Exhaustive  bool
	Shallow     bool // every scenario was explored completely at depth bound - 1 (iterative deepening pass)
	Found       []Found
	FoundTotal  int64
	Samples     []string
	PerConfig   []string
	Queries     int64
	Callbacks   int64
	Panics      int64
	Extra       map[string]any
	StateSet    map[uint64]struct{} `json:"-"`
	NTSet       map[uint64]struct{} `json:"-"`
}

// Options control an exploration.
type Options struct {
	Workers   int
	Deadline  time.Time // zero: none
	MaxFound  int       // stop collecting after this many distinct signatures (default 20)
	Signature func(f *Found) string
	Progress  bool
	Shard     int // this process handles depth-2 subtrees k with k % NShard == Shard
	NShard    int
}

type explorer struct {
	sc       *Scenario
	opt      Options
	cfg      drv.Config
	prelude  []model.Op
	pi       int
	hist     atomic.Int64
	trans    atomic.Int64
	queries  atomic.Int64
	cbs      atomic.Int64
	panics   atomic.Int64
	mu       sync.Mutex
	found    map[string]*Found
	foundN   int64
	states   map[uint64]struct{}
	nontriv  map[uint64]struct{}
	samples  []string
	timedOut atomic.Bool
	maxDepth int
	current  []atomic.Pointer[[]model.Op]
	started  []atomic.Int64
}

func hash64(s string) uint64 {
	h := fnv.New64a()
	h.Write([]byte(s))
	return h.Sum64()
}

// Tolerate, if set, tells whether a violation (kind, operation kind) is a recorded known finding
// that does not stop the exploration of the subtree below it.
var Tolerate func(kind, opKind string) bool

// TraceFile, if set (env VERIF_TRACE_HIST), receives the history about to be executed (overwritten
// each time), so that a process killed by a Go fatal error (e.g. a wild memmove inside the library on a
// corrupted table) can be attributed to the history that was running.
var TraceFile *os.File

func init() {
	if p := os.Getenv("VERIF_TRACE_HIST"); p != "" {
		TraceFile, _ = os.OpenFile(p, os.O_CREATE|os.O_WRONLY|os.O_TRUNC, 0o644)
	}
}

// TraceRecord is what TraceFile holds.
type TraceRecord struct {
	Scenario string
	Cfg      drv.Config
	Hist     []model.Op
}

func traceHistory(name string, cfg drv.Config, prelude, hist []model.Op) {
	if TraceFile == nil {
		return
	}
	all := append(append([]model.Op{}, prelude...), hist...)
	b, _ := json.Marshal(TraceRecord{Scenario: name, Cfg: cfg, Hist: all})
	b = append(b, '\n')
	TraceFile.WriteAt(b, 0)
	TraceFile.Truncate(int64(len(b)))
}

// StepHook, if set, is installed as the world's OnStep callback (single-threaded sub modes only).
var StepHook func(step int)

// RunHistory executes prelude+hist on a fresh world. Oracles are evaluated after the last
// op only (every proper prefix is itself a node of the search and was checked there).
func RunHistory(sc *Scenario, cfg drv.Config, prelude, hist []model.Op) (*drv.World, *drv.Violation) {
	traceHistory(sc.Name, cfg, prelude, hist)
	x := drv.NewWorld(cfg, sc.Filters, sc.Obs, sc.Slots, sc.Oracle)
	if StepHook != nil {
		x.OnStep = StepHook
	}
	all := len(prelude) + len(hist)
	k := 0
	step := func(op model.Op) *drv.Violation {
		k++
		if v := x.Exec(op); v != nil {
			if k < all && Tolerate != nil && Tolerate(v.Kind, op.K.String()) {
				// a recorded known finding inside a prefix: it was reported when this prefix was a node;
				// the exploration continues below it (the finding does not corrupt the state)
				return nil
			}
			return v
		}
		if k == all || sc.ObserveAll {
			if sc.AfterOp != nil {
				if v := sc.AfterOp(x, op); v != nil {
					return v
				}
			}
			if v := x.Observe(); v != nil {
				return v
			}
		}
		return nil
	}
	for _, op := range prelude {
		if v := step(op); v != nil {
			return x, v
		}
	}
	for _, op := range hist {
		if v := step(op); v != nil {
			return x, v
		}
	}
	if all == 0 {
		if v := x.Observe(); v != nil {
			return x, v
		}
	}
	if sc.Probes != nil {
		for _, op := range sc.Probes(x) {
			if v := x.Exec(op); v != nil {
				v.Msg = "probe: " + v.Msg
				return x, v
			}
			if v := x.Observe(); v != nil {
				v.Msg = fmt.Sprintf("after probe %v: %s", op, v.Msg)
				return x, v
			}
		}
	}
	if sc.Leaf != nil {
		if v := sc.Leaf(x, sc, cfg, append(append([]model.Op{}, prelude...), hist...)); v != nil {
			return x, v
		}
	}
	return x, nil
}

func (e *explorer) record(cfg drv.Config, hist []model.Op, v *drv.Violation) {
	f := &Found{Scenario: e.sc.Name, Cfg: cfg, Prelude: e.pi, Hist: append(append([]model.Op{}, e.prelude...), hist...), V: *v}
	all := f.Hist
	if v.Step >= 1 && v.Step <= len(all) {
		f.OpKind = all[v.Step-1].K.String()
	} else if v.OpKind != "" {
		f.OpKind = "probe:" + v.OpKind
	}
	sig := v.Kind + "|" + f.OpKind
	if e.opt.Signature != nil {
		sig = e.opt.Signature(f)
	}
	e.mu.Lock()
	defer e.mu.Unlock()
	e.foundN++
	if old, ok := e.found[sig]; ok {
		if len(f.Hist) < len(old.Hist) {
			e.found[sig] = f
		}
		return
	}
	if len(e.found) < e.opt.MaxFound {
		e.found[sig] = f
	}
}

// node runs one history, records, and returns the enabled successors (nil on violation).
func (e *explorer) node(worker int, hist []model.Op, pad int, st map[uint64]struct{}, nt map[uint64]struct{}) ([]model.Op, int) {
	h := append([]model.Op(nil), hist...)
	e.current[worker].Store(&h)
	e.started[worker].Store(time.Now().UnixNano())
	cfg := e.cfg
	if cfg.AutoPad != 0 {
		cfg.Pad = pad
	}
	x, v := RunHistory(e.sc, cfg, e.prelude, hist)
	e.started[worker].Store(0)
	e.hist.Add(1)
	e.trans.Add(int64(x.Stat.Ops))
	e.queries.Add(int64(x.Stat.QueriesRun))
	e.cbs.Add(int64(x.Stat.Callbacks))
	e.panics.Add(int64(x.Stat.Panics))
	if v != nil {
		e.record(cfg, hist, v)
		all := len(e.prelude) + len(hist)
		if Tolerate == nil || v.Step != all || all == 0 || len(hist) == 0 || !Tolerate(v.Kind, hist[len(hist)-1].K.String()) || len(hist) >= e.sc.Depth {
			return nil, 0
		}
		// known finding: keep exploring below this node
		return e.sc.Alphabet(x.M), pad
	}
	nextPad := 0
	if cfg.AutoPad != 0 {
		nextPad = x.NextPad(cfg.AutoPad)
	}
	hk := hash64(x.M.Hash())
	st[hk] = struct{}{}
	nonTrivial := false
	if e.sc.NonTrivial != nil {
		nonTrivial = e.sc.NonTrivial(x)
	} else {
		nonTrivial = x.M.NumAlive() > 0
	}
	if nonTrivial {
		nt[hk] = struct{}{}
	}
	if len(hist) >= e.sc.Depth {
		return nil, 0
	}
	return e.sc.Alphabet(x.M), nextPad
}

func (e *explorer) dfs(worker int, hist []model.Op, pad int, st, nt map[uint64]struct{}) {
	if e.timedOut.Load() {
		return
	}
	if !e.opt.Deadline.IsZero() && time.Now().After(e.opt.Deadline) {
		e.timedOut.Store(true)
		return
	}
	succ, nextPad := e.node(worker, hist, pad, st, nt)
	for _, op := range succ {
		e.dfs(worker, append(hist, op), nextPad, st, nt)
	}
}

// Explore enumerates all histories of the scenario for every config and prelude.
func Explore(sc *Scenario, opt Options) *Report {
	if opt.Workers <= 0 {
		opt.Workers = runtime.NumCPU()
	}
	if opt.MaxFound == 0 {
		opt.MaxFound = 20
	}
	rep := &Report{Exhaustive: true, Shallow: true}
	allStates := map[uint64]struct{}{}
	allNT := map[uint64]struct{}{}
	found := map[string]*Found{}
	preludes := sc.Preludes
	if len(preludes) == 0 {
		preludes = [][]model.Op{nil}
	}
	for ci, cfg := range sc.Cfgs {
		for pi, pre := range preludes {
			e := &explorer{sc: sc, opt: opt, cfg: cfg, prelude: pre, pi: pi, found: found,
				current: make([]atomic.Pointer[[]model.Op], opt.Workers+1), started: make([]atomic.Int64, opt.Workers+1)}
			t0 := time.Now()
			// expand two levels sequentially to produce tasks
			st0, nt0 := map[uint64]struct{}{}, map[uint64]struct{}{}
			var tasks [][]model.Op
			var taskPad []int
			root, pad0 := e.node(opt.Workers, nil, 0, st0, nt0)
			for _, op1 := range root {
				h1 := []model.Op{op1}
				s1, pad1 := e.node(opt.Workers, h1, pad0, st0, nt0)
				for _, op2 := range s1 {
					tasks = append(tasks, []model.Op{op1, op2})
					taskPad = append(taskPad, pad1)
				}
			}
			if opt.NShard > 1 && opt.Shard != 0 {
				// the two expansion levels are executed by every shard; count them once (shard 0)
				e.hist.Store(0)
				e.trans.Store(0)
				e.queries.Store(0)
				e.cbs.Store(0)
				e.panics.Store(0)
				st0, nt0 = map[uint64]struct{}{}, map[uint64]struct{}{}
			}
			var wg sync.WaitGroup
			var next atomic.Int64
			sts := make([]map[uint64]struct{}, opt.Workers)
			nts := make([]map[uint64]struct{}, opt.Workers)
			stop := make(chan struct{})
			go e.watchdog(stop)
			for w := 0; w < opt.Workers; w++ {
				wg.Add(1)
				sts[w], nts[w] = map[uint64]struct{}{}, map[uint64]struct{}{}
				go func(w int) {
					defer wg.Done()
					for {
						k := int(next.Add(1)) - 1
						if k >= len(tasks) || e.timedOut.Load() {
							return
						}
						if opt.NShard > 1 && k%opt.NShard != opt.Shard {
							continue
						}
						hist := make([]model.Op, 2, sc.Depth+2)
						copy(hist, tasks[k])
						e.dfs(w, hist, taskPad[k], sts[w], nts[w])
					}
				}(w)
			}
			wg.Wait()
			close(stop)
			for k := range st0 {
				allStates[k] = struct{}{}
			}
			for k := range nt0 {
				allNT[k] = struct{}{}
			}
			for w := range sts {
				for k := range sts[w] {
					allStates[k] = struct{}{}
				}
				for k := range nts[w] {
					allNT[k] = struct{}{}
				}
			}
			rep.Histories += e.hist.Load()
			rep.Transitions += e.trans.Load()
			rep.Queries += e.queries.Load()
			rep.Callbacks += e.cbs.Load()
			rep.Panics += e.panics.Load()
			rep.FoundTotal += e.foundN
			done := "complete"
			if e.timedOut.Load() {
				rep.Exhaustive = false
				done = "DEADLINE (partial)"
			}
			rep.PerConfig = append(rep.PerConfig, fmt.Sprintf("%s cfg#%d{%v} prelude#%d(len %d) depth %d: %d histories, %s, %.1fs",
				sc.Name, ci, cfg, pi, len(pre), sc.Depth, e.hist.Load(), done, time.Since(t0).Seconds()))
			if opt.Progress {
				fmt.Fprintln(os.Stderr, rep.PerConfig[len(rep.PerConfig)-1])
			}
			if len(rep.Samples) < 6 && len(tasks) > 0 {
				// a sample: the last task extended by first-successor choices
				rep.Samples = append(rep.Samples, sampleHistory(sc, cfg, pre, tasks[len(tasks)/2]))
			}
			if e.timedOut.Load() {
				break
			}
		}
	}
	rep.States = int64(len(allStates))
	rep.NonTrivial = int64(len(allNT))
	rep.StateSet, rep.NTSet = allStates, allNT
	rep.MaxDepth = sc.Depth
	for _, f := range found {
		rep.Found = append(rep.Found, *f)
	}
	return rep
}

func sampleHistory(sc *Scenario, cfg drv.Config, pre []model.Op, start []model.Op) string {
	hist := append([]model.Op{}, start...)
	for len(hist) < sc.Depth {
		x, v := RunHistory(sc, cfg, pre, hist)
		if v != nil {
			break
		}
		succ := sc.Alphabet(x.M)
		if len(succ) == 0 {
			break
		}
		hist = append(hist, succ[(len(hist)*7)%len(succ)])
	}
	s := fmt.Sprintf("%s {%v} prelude=%v history=%v", sc.Name, cfg, pre, hist)
	return s
}

// watchdog reports a history that does not finish (a hang inside the implementation).
func (e *explorer) watchdog(stop chan struct{}) {
	t := time.NewTicker(5 * time.Second)
	defer t.Stop()
	for {
		select {
		case <-stop:
			return
		case <-t.C:
			now := time.Now().UnixNano()
			for w := range e.started {
				s := e.started[w].Load()
				if s != 0 && now-s > int64(300*time.Second) {
					h := e.current[w].Load()
					fmt.Fprintf(os.Stderr, "watchdog: history did not finish within 300s (harness gives up, no verdict): %v\n", *h)
					HangHook(e.sc, e.cfg, e.prelude, *h)
				}
			}
		}
	}
}

// HangHook is called when a history hangs; the CLI sets it to write evidence and exit 0 / exhaustive:false.
var HangHook = func(sc *Scenario, cfg drv.Config, prelude, hist []model.Op) {
	os.Exit(0)
}
