// Package ct defines the component universe used by all harnesses and the
// token <-> component value encoding.
//
// Every component value is derived from a single int64 "token"; token 0 is the
// zero value of the component. The model stores normalised tokens only.
package ct

import (
	"reflect"
	"strconv"
	"unsafe"

	"github.com/mlange-42/ark/ecs"
)

// Comp is an index into the component universe.
type Comp uint8

// The universe. Order here is NOT the registration order in a world.
const (
	P        Comp = iota // plain 16 B
	Q                    // plain 4 B
	R1                   // relation marker only (zero size)
	R2                   // relation with int64 payload
	S                    // pointer bearing
	Z                    // zero size
	L                    // plain 40 B (larger than an entity)
	T7                   // 1 B
	T8                   // 2 B
	T9                   // 8 B
	T10                  // 24 B
	T11                  // 12 B
	NumComps = 12
)

// Names of the components.
var Names = [NumComps]string{"P", "Q", "R1", "R2", "S", "Z", "L", "T7", "T8", "T9", "T10", "T11"}

func (c Comp) String() string { return Names[c] }

// Component types.
type (
	// CP is component P.
	CP struct{ X, Y int64 }
	// CQ is component Q.
	CQ struct{ V int32 }
	// CR1 is relation component R1.
	CR1 struct{ ecs.RelationMarker }
	// CR2 is relation component R2.
	CR2 struct {
		ecs.RelationMarker
		V int64
	}
	// CS is pointer bearing component S.
	CS struct {
		Ptr *Big
		Sl  []int32
		Str string
		M   map[int32]int32
	}
	// CZ is zero-size component Z.
	CZ struct{}
	// CL is large component L.
	CL struct{ A [5]int64 }
	// CT7 is a 1 byte component.
	CT7 struct{ V int8 }
	// CT8 is a 2 byte component.
	CT8 struct{ V int16 }
	// CT9 is an 8 byte component.
	CT9 struct{ V int64 }
	// CT10 is a 24 byte component.
	CT10 struct{ A [3]int64 }
	// CT11 is a 12 byte component.
	CT11 struct{ A [3]int32 }
)

// Types are the reflect types of the universe.
var Types = [NumComps]reflect.Type{
	reflect.TypeFor[CP](), reflect.TypeFor[CQ](), reflect.TypeFor[CR1](), reflect.TypeFor[CR2](),
	reflect.TypeFor[CS](), reflect.TypeFor[CZ](), reflect.TypeFor[CL](), reflect.TypeFor[CT7](),
	reflect.TypeFor[CT8](), reflect.TypeFor[CT9](), reflect.TypeFor[CT10](), reflect.TypeFor[CT11](),
}

// TypeNames for code generation.
var TypeNames = [NumComps]string{"CP", "CQ", "CR1", "CR2", "CS", "CZ", "CL", "CT7", "CT8", "CT9", "CT10", "CT11"}

// IsRel tells whether a component is a relation component.
func IsRel(c Comp) bool { return c == R1 || c == R2 }

// HasValue tells whether the component can hold a token.
func HasValue(c Comp) bool { return c != R1 && c != Z }

// Norm normalises a token to what the component can hold.
func Norm(c Comp, tok int64) int64 {
	switch c {
	case R1, Z:
		return 0
	case Q:
		return int64(int32(tok))
	case T7:
		return int64(int8(tok))
	case T8:
		return int64(int16(tok))
	case T11:
		return int64(int32(tok))
	}
	return tok
}

// Big is the pointee of CS.Ptr: 32 bytes, so that it is never batched by the tiny allocator
// and can be collected individually (C11 release oracle).
type Big [4]int64

// OnAllocS, if set, is told about every pointee allocated for a CS value (C11).
var OnAllocS func(tok int64, p *Big)

//go:noinline
func newBig(v int64) *Big {
	p := new(Big)
	*p = Big{v, ^v, v, 7}
	if OnAllocS != nil {
		OnAllocS(v, p)
	}
	return p
}

// Write stores the token into the component at p.
func Write(c Comp, p unsafe.Pointer, tok int64) {
	switch c {
	case P:
		*(*CP)(p) = CP{X: tok, Y: ^tok}
	case Q:
		*(*CQ)(p) = CQ{V: int32(tok)}
	case R1:
	case R2:
		(*CR2)(p).V = tok
	case S:
		if tok == 0 {
			*(*CS)(p) = CS{}
			return
		}
		*(*CS)(p) = CS{
			Ptr: newBig(tok),
			Sl:  []int32{int32(tok), int32(tok >> 32), 7},
			Str: strconv.FormatInt(tok, 10),
			M:   map[int32]int32{1: int32(tok)},
		}
	case Z:
	case L:
		*(*CL)(p) = CL{A: [5]int64{tok, tok + 1, tok + 2, tok + 3, ^tok}}
	case T7:
		*(*CT7)(p) = CT7{V: int8(tok)}
	case T8:
		*(*CT8)(p) = CT8{V: int16(tok)}
	case T9:
		*(*CT9)(p) = CT9{V: tok}
	case T10:
		*(*CT10)(p) = CT10{A: [3]int64{tok, ^tok, tok}}
	case T11:
		*(*CT11)(p) = CT11{A: [3]int32{int32(tok), ^int32(tok), int32(tok)}}
	}
}

// Read decodes the token of the component at p. ok is false if the value is
// not a consistent encoding of any token (torn / mixed / stale memory).
func Read(c Comp, p unsafe.Pointer) (tok int64, ok bool) {
	switch c {
	case P:
		v := *(*CP)(p)
		if v.X == 0 && v.Y == 0 {
			return 0, true
		}
		return v.X, v.Y == ^v.X
	case Q:
		return int64((*CQ)(p).V), true
	case R1:
		return 0, true
	case R2:
		return (*CR2)(p).V, true
	case S:
		v := (*CS)(p)
		if v.Ptr == nil && v.Sl == nil && v.Str == "" && v.M == nil {
			return 0, true
		}
		if v.Ptr == nil || len(v.Sl) != 3 || v.M == nil {
			return -1, false
		}
		t := v.Ptr[0]
		if *v.Ptr != (Big{t, ^t, t, 7}) {
			return t, false
		}
		if v.Sl[0] != int32(t) || v.Sl[1] != int32(t>>32) || v.Sl[2] != 7 {
			return t, false
		}
		if v.Str != strconv.FormatInt(t, 10) {
			return t, false
		}
		if len(v.M) != 1 || v.M[1] != int32(t) {
			return t, false
		}
		return t, true
	case Z:
		return 0, true
	case L:
		v := (*CL)(p)
		t := v.A[0]
		if v.A == [5]int64{} {
			return 0, true
		}
		return t, v.A == [5]int64{t, t + 1, t + 2, t + 3, ^t}
	case T7:
		return int64((*CT7)(p).V), true
	case T8:
		return int64((*CT8)(p).V), true
	case T9:
		return (*CT9)(p).V, true
	case T10:
		v := (*CT10)(p)
		t := v.A[0]
		if v.A == [3]int64{} {
			return 0, true
		}
		return t, v.A == [3]int64{t, ^t, t}
	case T11:
		v := (*CT11)(p)
		t := v.A[0]
		if v.A == [3]int32{} {
			return 0, true
		}
		return int64(t), v.A == [3]int32{t, ^t, t}
	}
	return 0, false
}

// CompOf returns the ecs.Comp for a universe component.
func CompOf(c Comp) ecs.Comp {
	switch c {
	case P:
		return ecs.C[CP]()
	case Q:
		return ecs.C[CQ]()
	case R1:
		return ecs.C[CR1]()
	case R2:
		return ecs.C[CR2]()
	case S:
		return ecs.C[CS]()
	case Z:
		return ecs.C[CZ]()
	case L:
		return ecs.C[CL]()
	case T7:
		return ecs.C[CT7]()
	case T8:
		return ecs.C[CT8]()
	case T9:
		return ecs.C[CT9]()
	case T10:
		return ecs.C[CT10]()
	case T11:
		return ecs.C[CT11]()
	}
	panic("bad comp")
}

// RelOf returns a type based relation (ecs.Rel[T]) for a relation component.
func RelOf(c Comp, target ecs.Entity) ecs.Relation {
	switch c {
	case R1:
		return ecs.Rel[CR1](target)
	case R2:
		return ecs.Rel[CR2](target)
	case P: // deliberately available for the invalid-call family
		return ecs.Rel[CP](target)
	}
	panic("bad relation comp")
}

// Set is a set of universe components.
type Set uint16

// Of builds a set.
func Of(cs ...Comp) Set {
	var s Set
	for _, c := range cs {
		s |= 1 << c
	}
	return s
}

// Has tests membership.
func (s Set) Has(c Comp) bool { return s&(1<<c) != 0 }

// List returns members in ascending order.
func (s Set) List() []Comp {
	var out []Comp
	for c := Comp(0); c < NumComps; c++ {
		if s.Has(c) {
			out = append(out, c)
		}
	}
	return out
}

// Len is the cardinality.
func (s Set) Len() int {
	n := 0
	for c := Comp(0); c < NumComps; c++ {
		if s.Has(c) {
			n++
		}
	}
	return n
}

func (s Set) String() string {
	out := "{"
	for i, c := range s.List() {
		if i > 0 {
			out += ","
		}
		out += Names[c]
	}
	return out + "}"
}

// Rels returns the relation components in the set.
func (s Set) Rels() Set { return s & Of(R1, R2) }
