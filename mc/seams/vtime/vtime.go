// Package vtime replaces "time" inside package ecs under the virtual-clock overlay.
// Now/Since answer from a script chosen by the explorer: each Since call is a choice point
// answering "limit not reached" (0) or "limit exceeded" (a huge duration).
package vtime

import "time"

// Re-exported names used by package ecs.
type (
	// Duration is time.Duration.
	Duration = time.Duration
	// Time is time.Time.
	Time = time.Time
)

// Durations.
const (
	Nanosecond  = time.Nanosecond
	Microsecond = time.Microsecond
	Millisecond = time.Millisecond
	Second      = time.Second
	Minute      = time.Minute
	Hour        = time.Hour
)

var (
	// Script holds the answers for successive Since calls (true = limit exceeded).
	Script []bool
	// Calls counts Since calls since the last Reset.
	Calls int
	// Default is the answer after the script is exhausted.
	Default bool
)

// Reset installs a new script.
func Reset(script []bool, def bool) { Script, Calls, Default = script, 0, def }

// Now returns a fixed instant.
func Now() Time { return time.Unix(0, 0) }

// Since answers from the script.
func Since(Time) Duration {
	ans := Default
	if Calls < len(Script) {
		ans = Script[Calls]
	}
	Calls++
	if ans {
		return time.Duration(1<<62 - 1)
	}
	return 0
}
