// Package vmap provides explorer-controlled iteration order for maps inside package ecs
// under the map-order overlay: every `range` over a map iterates over Keys(m, site).
package vmap

import (
	"fmt"
	"reflect"
	"sort"
)

var (
	// Choices are the permutation indices for successive Keys calls with >= 2 keys (default 0 = ascending).
	Choices []int
	// Calls counts Keys calls with >= 2 keys since Reset.
	Calls int
	// Log records (site, number of keys, number of permutations offered) per choice point.
	Log []Site
)

// Site describes one choice point.
type Site struct {
	Where string
	Keys  int
	Perms int
}

// Reset installs the choices for the next execution.
func Reset(ch []int) { Choices, Calls, Log = ch, 0, Log[:0] }

func less(a, b reflect.Value) bool {
	switch a.Kind() {
	case reflect.Int, reflect.Int8, reflect.Int16, reflect.Int32, reflect.Int64:
		return a.Int() < b.Int()
	case reflect.Uint, reflect.Uint8, reflect.Uint16, reflect.Uint32, reflect.Uint64, reflect.Uintptr:
		return a.Uint() < b.Uint()
	case reflect.String:
		return a.String() < b.String()
	}
	return fmt.Sprint(a.Interface()) < fmt.Sprint(b.Interface())
}

// numPerms: all permutations for <= 3 keys, reversal + all rotations above.
func numPerms(n int) int {
	switch {
	case n < 2:
		return 1
	case n == 2:
		return 2
	case n == 3:
		return 6
	}
	return n + 1
}

func permute[K any](keys []K, p int) []K {
	n := len(keys)
	if p == 0 || n < 2 {
		return keys
	}
	out := make([]K, 0, n)
	if n <= 3 {
		// p-th permutation in lexicographic order of positions
		idx := make([]int, n)
		for i := range idx {
			idx[i] = i
		}
		for i := 0; i < p; i++ {
			nextPerm(idx)
		}
		for _, i := range idx {
			out = append(out, keys[i])
		}
		return out
	}
	if p == n {
		for i := n - 1; i >= 0; i-- {
			out = append(out, keys[i])
		}
		return out
	}
	out = append(out, keys[p:]...)
	out = append(out, keys[:p]...)
	return out
}

func nextPerm(a []int) {
	i := len(a) - 2
	for i >= 0 && a[i] >= a[i+1] {
		i--
	}
	if i < 0 {
		return
	}
	j := len(a) - 1
	for a[j] <= a[i] {
		j--
	}
	a[i], a[j] = a[j], a[i]
	for l, r := i+1, len(a)-1; l < r; l, r = l+1, r-1 {
		a[l], a[r] = a[r], a[l]
	}
}

// Keys returns the keys of m in the order chosen by the explorer.
func Keys[K comparable, V any](m map[K]V, site string) []K {
	keys := make([]K, 0, len(m))
	for k := range m {
		keys = append(keys, k)
	}
	sort.Slice(keys, func(i, j int) bool { return less(reflect.ValueOf(keys[i]), reflect.ValueOf(keys[j])) })
	if len(keys) < 2 {
		return keys
	}
	p := 0
	if Calls < len(Choices) {
		p = Choices[Calls]
	}
	Calls++
	np := numPerms(len(keys))
	Log = append(Log, Site{site, len(keys), np})
	if p >= np {
		p = 0
	}
	return permute(keys, p)
}
