// Package vgc provides explorer-controlled garbage collection points inside package ecs
// under the GC overlay: the deviation at a point is "run runtime.GC() twice here".
package vgc

import "runtime"

var (
	// At is the set of point indices (per execution, 0-based) at which to collect.
	At map[int]bool
	// Calls counts points passed since Reset.
	Calls int
	// Sites counts calls per site name (for evidence).
	Sites = map[string]int{}
	// Enabled switches the points on.
	Enabled bool
)

// Reset installs the deviation points for the next execution.
func Reset(at map[int]bool) { At, Calls, Enabled = at, 0, true }

// Point is a potential GC point.
func Point(site string) {
	if !Enabled {
		return
	}
	if At[Calls] {
		runtime.GC()
		runtime.GC()
	}
	Calls++
	Sites[site]++
}
