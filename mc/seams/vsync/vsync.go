// Package vsync replaces "sync" inside package ecs when the harness builds ark with the
// scheduler overlay. Mutex operations are scheduling points of a cooperative, controlled
// scheduler; exactly one harness thread runs at a time. The hand-off between threads is a
// spin on a plain variable inside //go:norace functions that use fixed arrays only, so it
// creates no happens-before edge for the Go race detector: the detector sees exactly the
// program's own synchronisation (the real mutex inside each vsync.Mutex).
package vsync

import (
	"os"
	"runtime"
	"sync"
)

// Pass-through types.
type (
	// WaitGroup is sync.WaitGroup.
	WaitGroup = sync.WaitGroup
	// Once is sync.Once.
	Once = sync.Once
	// Locker is sync.Locker.
	Locker = sync.Locker
)

// MaxT is the maximum number of scheduled threads.
const MaxT = 8

// MaxP is the maximum number of scheduling points per execution.
const MaxP = 512

var (
	active  bool
	turn    int32 = -1
	nthr    int32
	status  [MaxT]int32 // 0 unused, 1 runnable, 2 blocked on mutex, 3 done
	waitsOn [MaxT]*Mutex
	choices [MaxP]int32
	nchoice int32
	pos     int32
	trN     [MaxP]int32 // number of enabled threads at each point
	trC     [MaxP]int32 // choice taken
	trR     [MaxP]bool  // running thread was still enabled (alternative = preemption)
	trT     [MaxP]int32 // thread chosen
	ntrace  int32
	badCh   bool // a prefix choice was out of range
	dead    bool // deadlock detected
)

// Mutex is a scheduled mutex.
type Mutex struct {
	real sync.Mutex
	held bool
}

// RWMutex is a scheduled reader/writer mutex (writers and readers are both exclusive here:
// a coarser but sound scheduling model; the real RWMutex provides the happens-before edges).
type RWMutex struct {
	real sync.RWMutex
	m    Mutex
}

//go:norace
//go:noinline
func getTurn() int32 { return turn }

//go:norace
//go:noinline
func isActive() bool { return active }

//go:norace
//go:noinline
func waitTurn(id int32) {
	for getTurn() != id {
		runtime.Gosched()
	}
}

//go:norace
//go:noinline
func enabled(i int32) bool {
	if status[i] == 1 {
		return true
	}
	return status[i] == 2 && !waitsOn[i].held
}

//go:norace
//go:noinline
func pickNext(cur int32) int32 {
	var en [MaxT]int32
	n := int32(0)
	curEnabled := cur >= 0 && enabled(cur)
	if curEnabled {
		en[n] = cur
		n++
	}
	for i := int32(0); i < nthr; i++ {
		if i != cur && enabled(i) {
			en[n] = i
			n++
		}
	}
	if n == 0 {
		return -1
	}
	c := int32(0)
	if pos < nchoice {
		c = choices[pos]
		if c >= n {
			badCh = true
			c = 0
		}
	}
	pos++
	if ntrace < MaxP {
		trN[ntrace] = n
		trC[ntrace] = c
		trR[ntrace] = curEnabled
		trT[ntrace] = en[c]
		ntrace++
	}
	return en[c]
}

//go:norace
//go:noinline
func allDone() bool {
	for i := int32(0); i < nthr; i++ {
		if status[i] != 3 {
			return false
		}
	}
	return true
}

//go:norace
//go:noinline
func point(id int32) {
	nx := pickNext(id)
	if nx < 0 {
		dead = true
		os.Stdout.WriteString("DEADLOCK\n")
		os.Exit(3)
	}
	turn = nx
	waitTurn(id)
}

//go:norace
//go:noinline
func lockEnter(m *Mutex) int32 {
	id := turn
	status[id] = 2
	waitsOn[id] = m
	point(id)
	status[id] = 1
	waitsOn[id] = nil
	m.held = true
	return id
}

//go:norace
//go:noinline
func unlockLeave(m *Mutex) {
	id := turn
	m.held = false
	point(id)
}

// Lock locks m; under the scheduler this is a scheduling point before the acquisition.
func (m *Mutex) Lock() {
	if !isActive() {
		m.real.Lock()
		return
	}
	lockEnter(m)
	m.real.Lock()
}

// Unlock unlocks m; under the scheduler this is a scheduling point after the release.
func (m *Mutex) Unlock() {
	if !isActive() {
		m.real.Unlock()
		return
	}
	m.real.Unlock()
	unlockLeave(m)
}

// TryLock tries to lock m.
func (m *Mutex) TryLock() bool {
	if !isActive() {
		return m.real.TryLock()
	}
	if !tryEnter(m) {
		return false
	}
	m.real.Lock()
	return true
}

//go:norace
//go:noinline
func tryEnter(m *Mutex) bool {
	id := turn
	point(id)
	if m.held {
		return false
	}
	m.held = true
	return true
}

// Lock locks rw for writing.
func (rw *RWMutex) Lock() { rw.m.Lock(); rw.real.Lock() }

// Unlock unlocks rw for writing.
func (rw *RWMutex) Unlock() { rw.real.Unlock(); rw.m.Unlock() }

// RLock locks rw for reading.
func (rw *RWMutex) RLock() { rw.m.Lock(); rw.real.RLock() }

// RUnlock undoes a single RLock call.
func (rw *RWMutex) RUnlock() { rw.real.RUnlock(); rw.m.Unlock() }

// ---------------------------------------------------------------- harness side

// Setup prepares a controlled execution of n threads with the given choice prefix.
//
//go:norace
//go:noinline
func Setup(n int, ch []int32) {
	nthr = int32(n)
	for i := range status {
		status[i] = 0
		waitsOn[i] = nil
	}
	for i := int32(0); i < nthr; i++ {
		status[i] = 1
	}
	nchoice = int32(len(ch))
	for i, c := range ch {
		if i < MaxP {
			choices[i] = c
		}
	}
	pos = 0
	ntrace = 0
	badCh = false
	dead = false
	turn = -1
	active = true
}

// Start hands control to the first thread.
//
//go:norace
//go:noinline
func Start() { turn = pickNext(-1) }

// ThreadBegin blocks the calling goroutine until it is scheduled.
//
//go:norace
//go:noinline
func ThreadBegin(id int) { waitTurn(int32(id)) }

// ThreadEnd marks the thread finished and schedules the next one.
//
//go:norace
//go:noinline
func ThreadEnd(id int) {
	status[id] = 3
	if allDone() {
		turn = -1
		return
	}
	nx := pickNext(-1)
	if nx < 0 {
		dead = true
		os.Stdout.WriteString("DEADLOCK\n")
		os.Exit(3)
	}
	turn = nx
}

// Stop deactivates the scheduler (sequential code may use mutexes freely again).
//
//go:norace
//go:noinline
func Stop() { active = false; turn = -1 }

// Yield is an explicit scheduling point for harness code (e.g. inside wait loops).
//
//go:norace
//go:noinline
func Yield() {
	if active && turn >= 0 {
		point(turn)
	}
}

// Point is one recorded scheduling point.
type Point struct {
	Enabled        int32
	Choice         int32
	RunningEnabled bool
	Thread         int32
}

// Trace returns the scheduling points of the last execution.
//
//go:norace
//go:noinline
func Trace() []Point {
	out := make([]Point, ntrace)
	for i := int32(0); i < ntrace; i++ {
		out[i] = Point{trN[i], trC[i], trR[i], trT[i]}
	}
	return out
}

// BadChoice reports whether a prefix choice was out of range (replay divergence).
//
//go:norace
//go:noinline
func BadChoice() bool { return badCh }
