// Package model is the boring reference model of the ark ECS: entities are a
// slice, components a bitset plus one token per component, relation targets are
// indices into the entity slice. It also models registered filters, open
// queries (world lock), observers (documented firing rules) and resources.
package model

import (
	"fmt"
	"sort"
	"strings"

	"verif/mc/ct"
)

// Kind is the operation kind.
type Kind uint8

// Operation kinds.
const (
	OpNewPlain       Kind = iota // World.NewEntity()
	OpNewEntities                // World.NewEntities(N, fn)
	OpNew                        // create entity with Cs (targets T), via Path
	OpNewBatch                   // create N entities with Cs (targets T), via Path
	OpCopy                       // World.CopyEntity(E)
	OpAdd                        // add Cs to E
	OpRemove                     // remove Rm from E
	OpExchange                   // add Cs, remove Rm on E
	OpSet                        // MapN.Set(E, Cs) (emits OnSetComponents)
	OpWrite                      // write through Get pointers of Cs on E
	OpSetRel                     // SetRelations(E, T for relation comps in Cs)
	OpRemoveEntity               // remove E
	OpAddBatch                   // add Cs to all matching filter F (+ QT)
	OpRemoveBatch                // remove Rm from all matching filter F
	OpExchangeBatch              // add Cs / remove Rm on all matching filter F
	OpSetRelBatch                // set relation targets on all matching F
	OpRemoveEntities             // remove all entities matching F
	OpRegister                   // register filter F
	OpUnregister                 // unregister filter F
	OpOpen                       // open a query of filter F (+ QT) in slot Q
	OpNext                       // advance query in slot Q
	OpClose                      // close query in slot Q
	OpCount                      // Count()/EntityAt on query in slot Q
	OpShrink                     // World.Shrink()
	OpShrinkLimit                // World.Shrink(limit) with clock answers in N (bit pattern), repeated until false
	OpReset                      // World.Reset()
	OpStats                      // World.Stats()
	OpObserve                    // register observer O
	OpUnobserve                  // unregister observer O
	OpEmit                       // emit custom event for E with Cs
	OpDumpLoad                   // DumpEntities -> LoadEntities into a fresh world, continue there
	OpGC                         // runtime.GC()
	OpResAdd                     // add resource N
	OpResRemove                  // remove resource N
	OpInvalid                    // an invalid call (see Inv)
	OpRegisterComp               // register a new dummy component type
	OpTouch                      // open a query of filter F (+QT) and close it immediately
	OpLoadEntities               // Unsafe.LoadEntities of a dump taken from this world (only as locked-world probe)
	OpLeakClose                  // close the query that a callback of an earlier operation left open (see Op.Leak)
	NumKinds
)

var kindNames = [...]string{"NewPlain", "NewEntities", "New", "NewBatch", "Copy", "Add", "Remove", "Exchange", "Set", "Write",
	"SetRel", "RemoveEntity", "AddBatch", "RemoveBatch", "ExchangeBatch", "SetRelBatch", "RemoveEntities", "Register",
	"Unregister", "Open", "Next", "Close", "Count", "Shrink", "ShrinkLimit", "Reset", "Stats", "Observe", "Unobserve", "Emit",
	"DumpLoad", "GC", "ResAdd", "ResRemove", "Invalid", "RegisterComp", "Touch", "LoadEntities", "LeakClose"}

func (k Kind) String() string { return kindNames[k] }

// Path selects the API path an operation is executed through.
type Path uint8

// API paths.
const (
	PathUnsafe   Path = iota // ID-based API (World.Unsafe())
	PathMapN                 // generated MapN for the exact tuple
	PathMap                  // Map[T] (single component)
	PathExchange             // generated ExchangeN
)

var pathNames = [...]string{"unsafe", "mapN", "map", "exchange"}

func (p Path) String() string { return pathNames[p] }

// Init selects how new components are initialised.
type Init uint8

// Initialisation modes.
const (
	InitValue Init = iota // pass values (NewEntity / Add)
	InitFn                // callback writes the values (NewEntityFn / AddFn)
	InitNil               // nil callback: components stay uninitialised (must read as zero)
)

// NoTarget marks an absent relation target argument; ZeroTarget is the zero entity.
const (
	NoTarget   = -2
	ZeroTarget = -1
)

// RelT is a relation target by model entity index.
type RelT struct {
	C ct.Comp
	T int
}

// Op is a concrete abstract operation.
type Op struct {
	K    Kind
	Path Path
	Init Init
	E    int       // entity (model index)
	Cs   ct.Set    // components to add / create / set
	Ord  []ct.Comp `json:",omitempty"` // explicit tuple order for typed paths (default: ascending)
	Rm   ct.Set    // components to remove
	T    []RelT    `json:",omitempty"` // relation targets
	F    int       // filter index
	QT   []RelT    `json:",omitempty"` // per-query / per-batch relation targets
	Q    int       // query slot
	N    int       // count / pattern / resource / index
	O    int       // observer index
	Fn   bool      // batch/entities callback given
	Inv  int       // invalid call kind (OpInvalid)
	// Leak: the operation's callback opens a Filter0 query and leaves it open when the operation returns
	// (NewEntities with callback); it is closed by OpLeakClose
	Leak bool `json:",omitempty"`
}

func relStr(rs []RelT) string {
	if len(rs) == 0 {
		return ""
	}
	var sb strings.Builder
	for _, r := range rs {
		t := fmt.Sprintf("#%d", r.T)
		if r.T == ZeroTarget {
			t = "zero"
		}
		fmt.Fprintf(&sb, " %s->%s", r.C, t)
	}
	return sb.String()
}

func (o Op) String() string {
	s := o.K.String()
	switch o.K {
	case OpNewPlain, OpShrink, OpReset, OpStats, OpDumpLoad, OpGC:
	case OpNewEntities:
		s += fmt.Sprintf("(%d,fn=%v)", o.N, o.Fn)
		if o.Leak {
			s += "+leaves a query open"
		}
	case OpNew:
		s += fmt.Sprintf("(%s%s via %s init=%d)", o.Cs, relStr(o.T), o.Path, o.Init)
	case OpNewBatch:
		s += fmt.Sprintf("(%d,%s%s via %s init=%d fn=%v)", o.N, o.Cs, relStr(o.T), o.Path, o.Init, o.Fn)
	case OpCopy, OpRemoveEntity:
		s += fmt.Sprintf("(#%d)", o.E)
	case OpAdd:
		s += fmt.Sprintf("(#%d,+%s%s via %s init=%d)", o.E, o.Cs, relStr(o.T), o.Path, o.Init)
	case OpRemove:
		s += fmt.Sprintf("(#%d,-%s via %s)", o.E, o.Rm, o.Path)
	case OpExchange:
		s += fmt.Sprintf("(#%d,+%s-%s%s via %s init=%d)", o.E, o.Cs, o.Rm, relStr(o.T), o.Path, o.Init)
	case OpSet, OpWrite:
		s += fmt.Sprintf("(#%d,%s via %s)", o.E, o.Cs, o.Path)
	case OpSetRel:
		s += fmt.Sprintf("(#%d,%s via %s)", o.E, relStr(o.T), o.Path)
	case OpAddBatch, OpRemoveBatch, OpExchangeBatch, OpSetRelBatch, OpRemoveEntities:
		s += fmt.Sprintf("(f%d%s: +%s-%s%s via %s init=%d fn=%v)", o.F, relStr(o.QT), o.Cs, o.Rm, relStr(o.T), o.Path, o.Init, o.Fn)
	case OpRegister, OpUnregister, OpTouch:
		s += fmt.Sprintf("(f%d%s)", o.F, relStr(o.QT))
	case OpOpen:
		s += fmt.Sprintf("(q%d=f%d%s)", o.Q, o.F, relStr(o.QT))
	case OpNext, OpClose, OpCount:
		s += fmt.Sprintf("(q%d)", o.Q)
	case OpShrinkLimit:
		s += fmt.Sprintf("(pattern=%b)", o.N)
	case OpObserve, OpUnobserve:
		s += fmt.Sprintf("(o%d)", o.O)
	case OpEmit:
		s += fmt.Sprintf("(#%d,%s)", o.E, o.Cs)
	case OpResAdd, OpResRemove, OpRegisterComp:
		s += fmt.Sprintf("(%d)", o.N)
	case OpInvalid:
		s += fmt.Sprintf("(kind=%d method=%d #%d %s %s%s via %s)", o.Inv, o.N, o.E, o.Tuple(), o.Rm, relStr(o.T), o.Path)
	}
	return s
}

// Tuple returns the ordered tuple of Cs for typed paths.
func (o Op) Tuple() []ct.Comp {
	if o.Ord != nil {
		return o.Ord
	}
	return o.Cs.List()
}

// Target returns the target given for relation component c in list rs.
func Target(rs []RelT, c ct.Comp) int {
	for _, r := range rs {
		if r.C == c {
			return r.T
		}
	}
	return NoTarget
}

// Ent is a model entity.
type Ent struct {
	Alive bool
	Comps ct.Set
	Val   [ct.NumComps]int64
	Tgt   [ct.NumComps]int
}

// FilterSpec describes a filter.
type FilterSpec struct {
	Params    []ct.Comp // generic parameters (typed) / Get order (unsafe)
	With      ct.Set    // additional required components
	Without   ct.Set
	Exclusive bool
	Rels      []RelT // fixed relation targets (Filter.Relations)
	Unsafe    bool   // use ecs.UnsafeFilter
}

// Required returns all required components.
func (f *FilterSpec) Required() ct.Set { return ct.Of(f.Params...) | f.With }

func (f FilterSpec) String() string {
	s := fmt.Sprintf("[%v with=%s", f.Params, f.With)
	if f.Exclusive {
		s += " exclusive"
	} else if f.Without != 0 {
		s += " without=" + f.Without.String()
	}
	s += relStr(f.Rels)
	if f.Unsafe {
		s += " unsafe"
	}
	return s + "]"
}

// Event kinds.
const (
	EvCreateEntity = iota
	EvRemoveEntity
	EvAddComponents
	EvRemoveComponents
	EvSetComponents
	EvAddRelations
	EvRemoveRelations
	EvCustom
	EvCustom2
	NumEvents
)

// EvNames are the event names.
var EvNames = [...]string{"OnCreateEntity", "OnRemoveEntity", "OnAddComponents", "OnRemoveComponents", "OnSetComponents", "OnAddRelations", "OnRemoveRelations", "Custom", "Custom2"}

// ObsSpec describes an observer.
type ObsSpec struct {
	Event     int
	Params    []ct.Comp // typed generic params (ObserverN); nil = non-generic Observer
	For       ct.Set
	With      ct.Set
	Without   ct.Set
	Exclusive bool
	// Action run inside the callback (C08 unregister-in-callback cases): 0 none,
	// 1 unregister self, 2 unregister observer Arg.
	Action int
	Arg    int
}

// Observed returns F: generic parameters plus For.
func (o *ObsSpec) Observed() ct.Set { return ct.Of(o.Params...) | o.For }

func (o ObsSpec) String() string {
	s := fmt.Sprintf("%s[for=%s with=%s", EvNames[o.Event], o.Observed(), o.With)
	if o.Exclusive {
		s += " exclusive"
	} else {
		s += " without=" + o.Without.String()
	}
	if len(o.Params) > 0 {
		s += fmt.Sprintf(" typed%v", o.Params)
	}
	if o.Action != 0 {
		s += fmt.Sprintf(" action=%d/%d", o.Action, o.Arg)
	}
	return s + "]"
}

// QueryState is an open query slot.
type QueryState struct {
	Open     bool
	F        int
	QT       []RelT
	Expected []int // entities matching at open time
	Visited  int   // number of successful Next calls
}

// Ev is an expected observer callback.
type Ev struct {
	Obs int
	Ent int  // model entity index; -1 for the zero entity
	Pre bool // callback runs before the change (removal events)
}

// Model is the reference state.
type Model struct {
	Ents     []Ent
	Tok      int64 // last token handed out
	Filters  []FilterSpec
	Created  []bool // filter object created (by first use)
	Reg      []bool // filter registered
	Queries  []QueryState
	Obs      []ObsSpec
	ObsReg   []bool
	Res      [4]int64 // resources: 0 = absent, else token
	Epoch    int      // number of resets/loads so far
	EpochLo  int      // first entity index of the current epoch (handles issued since last Reset)
	NDummies int      // extra registered dummy component types
	Created_ int      // creations in epoch
	Removed_ int      // removals in epoch
	Leaked   bool     // a query opened inside a callback is still open (Op.Leak)
}

// New creates an empty model with the given filter/observer specs and query slots.
func New(filters []FilterSpec, obs []ObsSpec, slots int) *Model {
	return &Model{
		Filters: filters, Created: make([]bool, len(filters)), Reg: make([]bool, len(filters)),
		Queries: make([]QueryState, slots),
		Obs:     obs, ObsReg: make([]bool, len(obs)),
	}
}

// Clone deep-copies the model (specs are shared, they are immutable).
func (m *Model) Clone() *Model {
	c := *m
	c.Ents = append([]Ent(nil), m.Ents...)
	c.Created = append([]bool(nil), m.Created...)
	c.Reg = append([]bool(nil), m.Reg...)
	c.ObsReg = append([]bool(nil), m.ObsReg...)
	c.Queries = make([]QueryState, len(m.Queries))
	for i, q := range m.Queries {
		c.Queries[i] = q
		c.Queries[i].Expected = append([]int(nil), q.Expected...)
		c.Queries[i].QT = append([]RelT(nil), q.QT...)
	}
	return &c
}

// NextTok hands out a fresh token.
func (m *Model) NextTok() int64 { m.Tok++; return m.Tok }

// Alive lists alive entity indices (ascending = creation order).
func (m *Model) Alive() []int {
	var out []int
	for i := range m.Ents {
		if m.Ents[i].Alive {
			out = append(out, i)
		}
	}
	return out
}

// NumAlive counts alive entities.
func (m *Model) NumAlive() int {
	n := 0
	for i := range m.Ents {
		if m.Ents[i].Alive {
			n++
		}
	}
	return n
}

// IsAlive reports liveness of an index (ZeroTarget is "alive" as target).
func (m *Model) IsAlive(i int) bool {
	return i >= 0 && i < len(m.Ents) && m.Ents[i].Alive
}

// Locked reports whether any query is open.
func (m *Model) Locked() bool {
	if m.Leaked {
		return true
	}
	for i := range m.Queries {
		if m.Queries[i].Open {
			return true
		}
	}
	return false
}

// OpenCount is the number of open queries.
func (m *Model) OpenCount() int {
	n := 0
	for i := range m.Queries {
		if m.Queries[i].Open {
			n++
		}
	}
	return n
}

// NumRegistered counts registered filters.
func (m *Model) NumRegistered() int {
	n := 0
	for _, r := range m.Reg {
		if r {
			n++
		}
	}
	return n
}

// NumObservers counts registered observers.
func (m *Model) NumObservers() int {
	n := 0
	for _, r := range m.ObsReg {
		if r {
			n++
		}
	}
	return n
}

// Matches evaluates a filter on an entity, with additional per-query targets.
func (m *Model) Matches(f *FilterSpec, qt []RelT, i int) bool {
	e := &m.Ents[i]
	if !e.Alive {
		return false
	}
	req := f.Required()
	if e.Comps&req != req {
		return false
	}
	if f.Exclusive {
		if e.Comps != req {
			return false
		}
	} else if e.Comps&f.Without != 0 {
		return false
	}
	for _, r := range f.Rels {
		if !m.relMatch(e, r) {
			return false
		}
	}
	for _, r := range qt {
		if !m.relMatch(e, r) {
			return false
		}
	}
	return true
}

func (m *Model) relMatch(e *Ent, r RelT) bool {
	if !e.Comps.Has(r.C) {
		return false
	}
	if r.T == ZeroTarget {
		return e.Tgt[r.C] == ZeroTarget
	}
	// A dead target matches nothing: every referrer was reset to the zero entity.
	if !m.IsAlive(r.T) {
		return false
	}
	return e.Tgt[r.C] == r.T
}

// Select returns the entities matching a filter (ascending index).
func (m *Model) Select(f *FilterSpec, qt []RelT) []int {
	var out []int
	for i := range m.Ents {
		if m.Matches(f, qt, i) {
			out = append(out, i)
		}
	}
	return out
}

// Result of applying an operation to the model.
type Result struct {
	Panics   bool  // the call must panic (and have no effect)
	Created  []int // entities created (model indices)
	Selected []int // entities a batch operation must select
	Events   []Ev  // expected observer callbacks (multiset)
	Touched  []int // entities whose state changed
	LockedCb bool  // callbacks of this op run on a locked world
}

// structural reports whether a kind changes structure (needs an unlocked world).
func structural(k Kind) bool {
	switch k {
	case OpNewPlain, OpNewEntities, OpNew, OpNewBatch, OpCopy, OpAdd, OpRemove, OpExchange, OpSetRel, OpRemoveEntity,
		OpAddBatch, OpRemoveBatch, OpExchangeBatch, OpSetRelBatch, OpRemoveEntities, OpReset, OpDumpLoad, OpRegisterComp, OpLoadEntities:
		return true
	}
	return false
}

// Structural is the exported form of structural.
func Structural(k Kind) bool { return structural(k) }

func (m *Model) newEnt(cs ct.Set, vals func(c ct.Comp) int64, rels []RelT) int {
	e := Ent{Alive: true, Comps: cs}
	for c := ct.Comp(0); c < ct.NumComps; c++ {
		e.Tgt[c] = ZeroTarget
	}
	for _, c := range cs.List() {
		if vals != nil {
			e.Val[c] = ct.Norm(c, vals(c))
		}
		if ct.IsRel(c) {
			e.Tgt[c] = Target(rels, c)
		}
	}
	m.Ents = append(m.Ents, e)
	m.Created_++
	return len(m.Ents) - 1
}

func (m *Model) kill(i int) {
	m.Ents[i].Alive = false
	m.Removed_++
}

// detach resets relation targets pointing to dead entities to the zero entity.
func (m *Model) detach() {
	for i := range m.Ents {
		e := &m.Ents[i]
		if !e.Alive {
			continue
		}
		for _, c := range e.Comps.Rels().List() {
			if t := e.Tgt[c]; t >= 0 && !m.Ents[t].Alive {
				e.Tgt[c] = ZeroTarget
			}
		}
	}
}

// ---------------------------------------------------------------- observers

// fire computes which registered observers of event ev fire for a transition.
//
// form: 0 entity (create/remove entity), 1 entity-relation, 2 add, 3 remove, 4 set.
// old/new are the component sets before/after; changed is the "S" set of the set form.
func (m *Model) fire(res *Result, ev int, form int, ent int, old, new, changed ct.Set, pre bool) {
	for oi := range m.Obs {
		if !m.ObsReg[oi] {
			continue
		}
		o := &m.Obs[oi]
		if o.Event != ev {
			continue
		}
		f := o.Observed()
		w := o.With
		x := o.Without
		if ev == EvCreateEntity || ev == EvRemoveEntity {
			w |= f
			f = 0
		}
		if ObsMatch(form, f, w, x, o.Exclusive, old, new, changed) {
			res.Events = append(res.Events, Ev{Obs: oi, Ent: ent, Pre: pre})
		}
	}
}

// ObsMatch is the documented observer predicate (DESIGN appendix A).
func ObsMatch(form int, f, w, x ct.Set, excl bool, old, new, changed ct.Set) bool {
	var cur ct.Set
	switch form {
	case 0: // entity
		cur = new
	case 1: // entity-relation
		cur = new
		if cur&f != f {
			return false
		}
	case 2: // add: all observed components added together
		if new&f != f || old&f != 0 {
			return false
		}
		cur = old
	case 3: // remove: all observed components removed together
		if old&f != f || new&f != 0 {
			return false
		}
		cur = old
	case 4: // set / custom
		if changed&f != f {
			return false
		}
		cur = new
	}
	if cur&w != w {
		return false
	}
	if excl {
		// exclusive: no component outside With
		if cur&^w != 0 {
			return false
		}
	} else if cur&x != 0 {
		return false
	}
	return true
}

// HasObs reports whether any observer of the event is registered.
func (m *Model) HasObs(ev int) bool {
	for oi := range m.Obs {
		if m.ObsReg[oi] && m.Obs[oi].Event == ev {
			return true
		}
	}
	return false
}

// ---------------------------------------------------------------- apply

// Valid reports whether the op is a valid call in the current state (ignoring the lock).
// Alphabets should only generate valid ops (plus explicit OpInvalid).
func (m *Model) Valid(op *Op) bool {
	aliveT := func(rs []RelT) bool {
		for _, r := range rs {
			if r.T != ZeroTarget && !m.IsAlive(r.T) {
				return false
			}
		}
		return true
	}
	fullTargets := func(cs ct.Set, rs []RelT) bool {
		for _, c := range cs.Rels().List() {
			if Target(rs, c) == NoTarget {
				return false
			}
		}
		for _, r := range rs {
			if !cs.Has(r.C) {
				return false
			}
		}
		return true
	}
	if op.Leak && (m.Leaked || op.K != OpNewEntities || !op.Fn || op.N < 1) {
		return false
	}
	switch op.K {
	case OpLeakClose:
		return m.Leaked
	case OpNew, OpNewBatch:
		return op.Cs != 0 && fullTargets(op.Cs, op.T) && aliveT(op.T)
	case OpCopy, OpRemoveEntity:
		return m.IsAlive(op.E)
	case OpAdd:
		return m.IsAlive(op.E) && op.Cs != 0 && m.Ents[op.E].Comps&op.Cs == 0 && fullTargets(op.Cs, op.T) && aliveT(op.T)
	case OpRemove:
		return m.IsAlive(op.E) && op.Rm != 0 && m.Ents[op.E].Comps&op.Rm == op.Rm
	case OpExchange:
		if !m.IsAlive(op.E) || (op.Cs == 0 && op.Rm == 0) || op.Cs&op.Rm != 0 {
			return false
		}
		e := &m.Ents[op.E]
		return e.Comps&op.Cs == 0 && e.Comps&op.Rm == op.Rm && fullTargets(op.Cs, op.T) && aliveT(op.T)
	case OpSet, OpWrite:
		return m.IsAlive(op.E) && op.Cs != 0 && m.Ents[op.E].Comps&op.Cs == op.Cs
	case OpSetRel:
		if !m.IsAlive(op.E) || len(op.T) == 0 || !aliveT(op.T) {
			return false
		}
		for _, r := range op.T {
			if !ct.IsRel(r.C) || !m.Ents[op.E].Comps.Has(r.C) {
				return false
			}
		}
		return true
	case OpAddBatch:
		// every selected entity must lack Cs
		if op.Cs == 0 || !fullTargets(op.Cs, op.T) || !aliveT(op.T) || !m.filterUsable(op.F, op.QT) {
			return false
		}
		for _, i := range m.Select(&m.Filters[op.F], op.QT) {
			if m.Ents[i].Comps&op.Cs != 0 {
				return false
			}
		}
		return true
	case OpRemoveBatch:
		if op.Rm == 0 || !m.filterUsable(op.F, op.QT) {
			return false
		}
		for _, i := range m.Select(&m.Filters[op.F], op.QT) {
			if m.Ents[i].Comps&op.Rm != op.Rm {
				return false
			}
		}
		return true
	case OpExchangeBatch:
		if (op.Cs == 0 && op.Rm == 0) || op.Cs&op.Rm != 0 || !fullTargets(op.Cs, op.T) || !aliveT(op.T) || !m.filterUsable(op.F, op.QT) {
			return false
		}
		for _, i := range m.Select(&m.Filters[op.F], op.QT) {
			if m.Ents[i].Comps&op.Rm != op.Rm || m.Ents[i].Comps&op.Cs != 0 {
				return false
			}
		}
		return true
	case OpSetRelBatch:
		if len(op.T) == 0 || !aliveT(op.T) || !m.filterUsable(op.F, op.QT) {
			return false
		}
		for _, i := range m.Select(&m.Filters[op.F], op.QT) {
			for _, r := range op.T {
				if !m.Ents[i].Comps.Has(r.C) {
					return false
				}
			}
		}
		return true
	case OpRemoveEntities:
		return m.filterUsable(op.F, op.QT)
	case OpRegister:
		return !m.Reg[op.F] && m.filterUsable(op.F, nil)
	case OpUnregister:
		return m.Reg[op.F]
	case OpOpen:
		return !m.Queries[op.Q].Open && m.filterUsable(op.F, op.QT)
	case OpTouch:
		return m.filterUsable(op.F, op.QT)
	case OpNext, OpClose, OpCount:
		return true
	case OpObserve:
		return !m.ObsReg[op.O]
	case OpUnobserve:
		return m.ObsReg[op.O]
	case OpResAdd:
		return m.Res[op.N] == 0
	case OpResRemove:
		return m.Res[op.N] != 0
	case OpEmit:
		if op.E == ZeroTarget {
			return op.Cs == 0
		}
		return m.IsAlive(op.E) && m.Ents[op.E].Comps&op.Cs == op.Cs
	}
	return true
}

// filterUsable: the filter object exists or can be created now (fixed targets alive),
// and per-call targets are alive or zero.
func (m *Model) filterUsable(f int, qt []RelT) bool {
	if !m.Created[f] {
		for _, r := range m.Filters[f].Rels {
			if r.T != ZeroTarget && !m.IsAlive(r.T) {
				return false
			}
		}
	}
	req := m.Filters[f].Required()
	for _, r := range qt {
		if r.T != ZeroTarget && !m.IsAlive(r.T) {
			return false
		}
		if !req.Has(r.C) {
			return false
		}
	}
	return true
}

// Apply applies a valid op. vals supplies the token for each (entity-ordinal, component)
// written by the op; it is called in a deterministic order.
func (m *Model) Apply(op *Op) Result {
	var res Result
	if (structural(op.K) && m.Locked()) || op.K == OpInvalid {
		res.Panics = true
		return res
	}
	tok := func(ct.Comp) int64 { return m.NextTok() }
	switch op.K {
	case OpNewPlain:
		i := m.newEnt(0, nil, nil)
		res.Created = []int{i}
		m.fire(&res, EvCreateEntity, 0, i, 0, 0, 0, false)
	case OpNewEntities:
		for k := 0; k < op.N; k++ {
			res.Created = append(res.Created, m.newEnt(0, nil, nil))
		}
		for _, i := range res.Created {
			m.fire(&res, EvCreateEntity, 0, i, 0, 0, 0, false)
		}
		res.LockedCb = true
		if op.Leak {
			m.Leaked = true
		}
	case OpLeakClose:
		m.Leaked = false
	case OpNew:
		var vf func(ct.Comp) int64
		if op.Init != InitNil {
			vf = tok
		}
		i := m.newEnt(op.Cs, vf, op.T)
		res.Created = []int{i}
		m.fire(&res, EvCreateEntity, 0, i, 0, op.Cs, 0, false)
		if len(op.T) > 0 {
			m.fire(&res, EvAddRelations, 1, i, 0, op.Cs, 0, false)
		}
	case OpNewBatch:
		for k := 0; k < op.N; k++ {
			var vf func(ct.Comp) int64
			if op.Init == InitFn {
				vf = tok
			}
			res.Created = append(res.Created, m.newEnt(op.Cs, vf, op.T))
		}
		if op.Init == InitValue {
			// one value for the whole batch
			var v [ct.NumComps]int64
			for _, c := range op.Cs.List() {
				v[c] = ct.Norm(c, m.NextTok())
			}
			for _, i := range res.Created {
				m.Ents[i].Val = v
			}
		}
		for _, i := range res.Created {
			m.fire(&res, EvCreateEntity, 0, i, 0, op.Cs, 0, false)
		}
		if len(op.T) > 0 {
			for _, i := range res.Created {
				m.fire(&res, EvAddRelations, 1, i, 0, op.Cs, 0, false)
			}
		}
		res.LockedCb = true
	case OpCopy:
		src := m.Ents[op.E]
		m.Ents = append(m.Ents, src)
		m.Created_++
		i := len(m.Ents) - 1
		res.Created = []int{i}
		m.fire(&res, EvCreateEntity, 0, i, 0, src.Comps, 0, false)
		if src.Comps.Rels() != 0 {
			m.fire(&res, EvAddRelations, 1, i, 0, src.Comps, 0, false)
		}
	case OpAdd, OpRemove, OpExchange:
		m.exchangeOne(&res, op.E, op.Cs, op.Rm, op.T, op.Init, tok)
	case OpSet:
		e := &m.Ents[op.E]
		for _, c := range op.Tuple() {
			e.Val[c] = ct.Norm(c, m.NextTok())
		}
		res.Touched = []int{op.E}
		m.fire(&res, EvSetComponents, 4, op.E, e.Comps, e.Comps, op.Cs, false)
	case OpWrite:
		e := &m.Ents[op.E]
		for _, c := range op.Tuple() {
			e.Val[c] = ct.Norm(c, m.NextTok())
		}
		res.Touched = []int{op.E}
	case OpSetRel:
		m.setRelOne(&res, op.E, op.T)
	case OpRemoveEntity:
		e := &m.Ents[op.E]
		m.fire(&res, EvRemoveEntity, 0, op.E, e.Comps, e.Comps, 0, true)
		if e.Comps.Rels() != 0 {
			m.fire(&res, EvRemoveRelations, 1, op.E, e.Comps, e.Comps, 0, true)
		}
		m.kill(op.E)
		m.detach()
		res.Touched = []int{op.E}
		res.LockedCb = true
	case OpAddBatch, OpRemoveBatch, OpExchangeBatch:
		m.markCreated(op.F)
		sel := m.Select(&m.Filters[op.F], op.QT)
		res.Selected = sel
		res.LockedCb = true
		// documented order: all removal events (pre), then changes, then all add events
		var pre, post Result
		var bv [ct.NumComps]int64
		if op.Init == InitValue {
			for _, c := range op.Tuple() {
				bv[c] = ct.Norm(c, m.NextTok())
			}
		}
		for _, i := range sel {
			var r Result
			init := op.Init
			m.exchangeOne(&r, i, op.Cs, op.Rm, op.T, init, tok)
			if op.Init == InitValue {
				for _, c := range op.Cs.List() {
					m.Ents[i].Val[c] = bv[c]
				}
			}
			for _, ev := range r.Events {
				if ev.Pre {
					pre.Events = append(pre.Events, ev)
				} else {
					post.Events = append(post.Events, ev)
				}
			}
		}
		res.Events = append(pre.Events, post.Events...)
		res.Touched = sel
	case OpSetRelBatch:
		m.markCreated(op.F)
		sel := m.Select(&m.Filters[op.F], op.QT)
		res.Selected = sel
		res.LockedCb = true
		var pre, post []Ev
		for _, i := range sel {
			var r Result
			m.setRelOne(&r, i, op.T)
			res.Touched = append(res.Touched, r.Touched...)
			for _, ev := range r.Events {
				if ev.Pre {
					pre = append(pre, ev)
				} else {
					post = append(post, ev)
				}
			}
		}
		res.Events = append(pre, post...)
	case OpRemoveEntities:
		m.markCreated(op.F)
		sel := m.Select(&m.Filters[op.F], op.QT)
		res.Selected = sel
		res.LockedCb = true
		for _, i := range sel {
			e := &m.Ents[i]
			m.fire(&res, EvRemoveEntity, 0, i, e.Comps, e.Comps, 0, true)
		}
		for _, i := range sel {
			e := &m.Ents[i]
			if e.Comps.Rels() != 0 {
				m.fire(&res, EvRemoveRelations, 1, i, e.Comps, e.Comps, 0, true)
			}
		}
		for _, i := range sel {
			m.kill(i)
		}
		m.detach()
		res.Touched = sel
	case OpRegister:
		m.markCreated(op.F)
		m.Reg[op.F] = true
	case OpUnregister:
		m.Reg[op.F] = false
	case OpOpen:
		m.markCreated(op.F)
		q := &m.Queries[op.Q]
		*q = QueryState{Open: true, F: op.F, QT: append([]RelT(nil), op.QT...), Expected: m.Select(&m.Filters[op.F], op.QT)}
	case OpNext:
		q := &m.Queries[op.Q]
		if q.Open {
			if q.Visited < len(q.Expected) {
				q.Visited++
			} else {
				q.Open = false
			}
		}
	case OpClose:
		m.Queries[op.Q].Open = false
	case OpCount, OpShrink, OpShrinkLimit, OpStats, OpGC:
	case OpTouch:
		m.markCreated(op.F)
	case OpReset:
		m.reset()
	case OpDumpLoad:
		// same entities, no components, in a fresh world: filters/observers gone
		for i := range m.Ents {
			if m.Ents[i].Alive {
				m.Ents[i].Comps = 0
				m.Ents[i].Val = [ct.NumComps]int64{}
			}
		}
		for i := range m.Reg {
			m.Reg[i] = false
			m.Created[i] = false
		}
		for i := range m.ObsReg {
			m.ObsReg[i] = false
		}
		m.Res = [4]int64{}
	case OpObserve:
		m.ObsReg[op.O] = true
	case OpUnobserve:
		m.ObsReg[op.O] = false
	case OpEmit:
		var cur ct.Set
		if op.E >= 0 {
			cur = m.Ents[op.E].Comps
		}
		ev := EvCustom + op.N
		m.fire(&res, ev, 4, op.E, cur, cur, op.Cs, false)
	case OpResAdd:
		m.Res[op.N] = m.NextTok()
	case OpResRemove:
		m.Res[op.N] = 0
	case OpRegisterComp:
		m.NDummies++
	}
	return res
}

func (m *Model) markCreated(f int) { m.Created[f] = true }

func (m *Model) reset() {
	for i := range m.Ents {
		m.Ents[i].Alive = false
	}
	m.EpochLo = len(m.Ents)
	m.Epoch++
	m.Created_, m.Removed_ = 0, 0
	for i := range m.Reg {
		m.Reg[i] = false
		// handles restart after a Reset: a filter object with a fixed pre-Reset target is
		// meaningless afterwards and is rebuilt on next use
		for _, r := range m.Filters[i].Rels {
			if r.T != ZeroTarget {
				m.Created[i] = false
			}
		}
	}
	for i := range m.ObsReg {
		m.ObsReg[i] = false
	}
	m.Res = [4]int64{}
}

// exchangeOne applies add/remove/exchange to one entity and records events.
func (m *Model) exchangeOne(res *Result, i int, add, rem ct.Set, rels []RelT, init Init, tok func(ct.Comp) int64) {
	e := &m.Ents[i]
	old := e.Comps
	new := (old &^ rem) | add
	if rem != 0 {
		m.fire(res, EvRemoveComponents, 3, i, old, new, 0, true)
		if rem.Rels() != 0 {
			m.fire(res, EvRemoveRelations, 3, i, old, new, 0, true)
		}
		res.LockedCb = true
	}
	for _, c := range rem.List() {
		e.Val[c] = 0
		e.Tgt[c] = ZeroTarget
	}
	e.Comps = new
	for _, c := range add.List() {
		e.Val[c] = 0
		e.Tgt[c] = ZeroTarget
		if ct.IsRel(c) {
			e.Tgt[c] = Target(rels, c)
		}
	}
	if init != InitNil {
		// deterministic order: tuple order is ascending unless the op gives Ord; values are
		// independent tokens so the order only affects numbering
		for _, c := range add.List() {
			e.Val[c] = ct.Norm(c, tok(c))
		}
	}
	if add != 0 {
		m.fire(res, EvAddComponents, 2, i, old, new, 0, false)
		if len(rels) > 0 {
			m.fire(res, EvAddRelations, 2, i, old, new, 0, false)
		}
	}
	res.Touched = append(res.Touched, i)
}

// setRelOne applies a relation target change to one entity.
func (m *Model) setRelOne(res *Result, i int, rels []RelT) {
	e := &m.Ents[i]
	var changed ct.Set
	for _, r := range rels {
		if e.Tgt[r.C] != r.T {
			changed |= ct.Of(r.C)
		}
	}
	if changed == 0 {
		return
	}
	m.fire(res, EvRemoveRelations, 4, i, e.Comps, e.Comps, changed, true)
	for _, r := range rels {
		e.Tgt[r.C] = r.T
	}
	m.fire(res, EvAddRelations, 4, i, e.Comps, e.Comps, changed, false)
	res.Touched = append(res.Touched, i)
	res.LockedCb = true
}

// Hash returns a canonical string of the observable model state (for counting states).
func (m *Model) Hash() string {
	var sb strings.Builder
	for i := range m.Ents {
		e := &m.Ents[i]
		if !e.Alive {
			sb.WriteString("x;")
			continue
		}
		fmt.Fprintf(&sb, "%x", uint16(e.Comps))
		for _, c := range e.Comps.List() {
			if ct.IsRel(c) {
				fmt.Fprintf(&sb, "t%d", e.Tgt[c])
			}
			// values are fresh tokens: only zero/non-zero is state-relevant
			if e.Val[c] == 0 {
				sb.WriteByte('0')
			}
		}
		sb.WriteByte(';')
	}
	fmt.Fprintf(&sb, "|%v|%v|", m.Reg, m.ObsReg)
	for _, q := range m.Queries {
		if q.Open {
			fmt.Fprintf(&sb, "q%d:%d/%d,", q.F, q.Visited, len(q.Expected))
		} else {
			sb.WriteString("-,")
		}
	}
	fmt.Fprintf(&sb, "|%d|%v", m.Epoch, m.Res)
	if m.Leaked {
		sb.WriteString("|leak")
	}
	return sb.String()
}

// SortEvents sorts an event multiset canonically.
func SortEvents(evs []Ev) {
	sort.Slice(evs, func(i, j int) bool {
		if evs[i].Obs != evs[j].Obs {
			return evs[i].Obs < evs[j].Obs
		}
		return evs[i].Ent < evs[j].Ent
	})
}
