//go:build verif_sched

// Command c13w is the E2 worker: it explores all interleavings (at synchronisation
// granularity, preemption-bounded) of concurrent query programs on a real ark World built with
// the vsync overlay, under the Go race detector. One line "SCHEDULE <scenario> <choices>" is
// printed before every execution, so that the parent knows which schedule was running if the
// race detector halts the process.
package main

import (
	"encoding/json"
	"flag"
	"fmt"
	"os"
	"runtime"
	"strconv"
	"strings"
	"sync"

	"github.com/mlange-42/ark/ecs"
	"github.com/mlange-42/ark/vsync"
)

type pos struct{ X, Y int64 }
type vel struct{ V int64 }
type childOf struct{ ecs.RelationMarker }
type childOf2 struct{ ecs.RelationMarker }
type tag struct{ T int32 }
type c4 struct{ A int8 }
type c5 struct{ A int16 }
type c6 struct{ A [3]int64 }
type c7 struct{ A int64 }
type c8 struct{ A int32 }
type c9 struct{ A int32 }

// arityFilter creates a shared FilterN over the first n of (pos, vel, tag, c4..c8) and returns a body
// that queries it and records the visited entities.
func arityFilter(w *ecs.World, n int) func(r *tres) {
	collect := func(next func() bool, ent func() ecs.Entity, r *tres) {
		k := 0
		for next() {
			r.visited = append(r.visited, ent())
			k++
			if k > maxIter {
				r.err = "runaway iteration"
				return
			}
		}
	}
	switch n {
	case 0:
		f := ecs.NewFilter0(w)
		return func(r *tres) { q := f.Query(); collect(q.Next, q.Entity, r) }
	case 1:
		f := ecs.NewFilter1[pos](w)
		return func(r *tres) { q := f.Query(); collect(q.Next, q.Entity, r) }
	case 2:
		f := ecs.NewFilter2[pos, vel](w)
		return func(r *tres) { q := f.Query(); collect(q.Next, q.Entity, r) }
	case 3:
		f := ecs.NewFilter3[pos, vel, tag](w)
		return func(r *tres) { q := f.Query(); collect(q.Next, q.Entity, r) }
	case 4:
		f := ecs.NewFilter4[pos, vel, tag, c4](w)
		return func(r *tres) { q := f.Query(); collect(q.Next, q.Entity, r) }
	case 5:
		f := ecs.NewFilter5[pos, vel, tag, c4, c5](w)
		return func(r *tres) { q := f.Query(); collect(q.Next, q.Entity, r) }
	case 6:
		f := ecs.NewFilter6[pos, vel, tag, c4, c5, c6](w)
		return func(r *tres) { q := f.Query(); collect(q.Next, q.Entity, r) }
	case 7:
		f := ecs.NewFilter7[pos, vel, tag, c4, c5, c6, c7](w)
		return func(r *tres) { q := f.Query(); collect(q.Next, q.Entity, r) }
	default:
		f := ecs.NewFilter8[pos, vel, tag, c4, c5, c6, c7, c8](w)
		return func(r *tres) { q := f.Query(); collect(q.Next, q.Entity, r) }
	}
}

// relArityFilter builds FilterN[..., childOf] (relation component last) for n = 1..8 and returns a function
// that uses the filter once for a Batch with a per-call target (leaving spare capacity in the filter's
// relation slice) and one that runs a query with a per-query target.
func relArityFilter(w *ecs.World, n int) (batch func(extra ecs.Entity), query func(target ecs.Entity, r *tres)) {
	collect := func(next func() bool, ent func() ecs.Entity, r *tres) {
		k := 0
		for next() {
			r.visited = append(r.visited, ent())
			k++
			if k > maxIter {
				r.err = "runaway iteration"
				return
			}
		}
	}
	i := n - 1
	switch n {
	case 1:
		f := ecs.NewFilter1[childOf](w)
		return func(x ecs.Entity) { w.RemoveEntities(f.Batch(ecs.RelIdx(i, x)), nil) },
			func(t ecs.Entity, r *tres) { q := f.Query(ecs.RelIdx(i, t)); collect(q.Next, q.Entity, r) }
	case 2:
		f := ecs.NewFilter2[pos, childOf](w)
		return func(x ecs.Entity) { w.RemoveEntities(f.Batch(ecs.RelIdx(i, x)), nil) },
			func(t ecs.Entity, r *tres) { q := f.Query(ecs.RelIdx(i, t)); collect(q.Next, q.Entity, r) }
	case 3:
		f := ecs.NewFilter3[pos, vel, childOf](w)
		return func(x ecs.Entity) { w.RemoveEntities(f.Batch(ecs.RelIdx(i, x)), nil) },
			func(t ecs.Entity, r *tres) { q := f.Query(ecs.RelIdx(i, t)); collect(q.Next, q.Entity, r) }
	case 4:
		f := ecs.NewFilter4[pos, vel, tag, childOf](w)
		return func(x ecs.Entity) { w.RemoveEntities(f.Batch(ecs.RelIdx(i, x)), nil) },
			func(t ecs.Entity, r *tres) { q := f.Query(ecs.RelIdx(i, t)); collect(q.Next, q.Entity, r) }
	case 5:
		f := ecs.NewFilter5[pos, vel, tag, c4, childOf](w)
		return func(x ecs.Entity) { w.RemoveEntities(f.Batch(ecs.RelIdx(i, x)), nil) },
			func(t ecs.Entity, r *tres) { q := f.Query(ecs.RelIdx(i, t)); collect(q.Next, q.Entity, r) }
	case 6:
		f := ecs.NewFilter6[pos, vel, tag, c4, c5, childOf](w)
		return func(x ecs.Entity) { w.RemoveEntities(f.Batch(ecs.RelIdx(i, x)), nil) },
			func(t ecs.Entity, r *tres) { q := f.Query(ecs.RelIdx(i, t)); collect(q.Next, q.Entity, r) }
	case 7:
		f := ecs.NewFilter7[pos, vel, tag, c4, c5, c6, childOf](w)
		return func(x ecs.Entity) { w.RemoveEntities(f.Batch(ecs.RelIdx(i, x)), nil) },
			func(t ecs.Entity, r *tres) { q := f.Query(ecs.RelIdx(i, t)); collect(q.Next, q.Entity, r) }
	default:
		f := ecs.NewFilter8[pos, vel, tag, c4, c5, c6, c7, childOf](w)
		return func(x ecs.Entity) { w.RemoveEntities(f.Batch(ecs.RelIdx(i, x)), nil) },
			func(t ecs.Entity, r *tres) { q := f.Query(ecs.RelIdx(i, t)); collect(q.Next, q.Entity, r) }
	}
}

// result of one thread
type tres struct {
	visited []ecs.Entity
	sum     int64
	count   int
	at0     ecs.Entity
	err     string
}

type scenario struct {
	name    string
	threads int
	// build creates the world and returns the thread bodies plus the expected results and a final check.
	build func() (bodies []func(r *tres), expect []tres, final func() string)
}

func entSet(es []ecs.Entity) map[ecs.Entity]int {
	m := map[ecs.Entity]int{}
	for _, e := range es {
		m[e]++
	}
	return m
}

func sameSet(a, b []ecs.Entity) bool {
	if len(a) != len(b) {
		return false
	}
	ma, mb := entSet(a), entSet(b)
	for k, v := range ma {
		if mb[k] != v || v != 1 {
			return false
		}
	}
	return true
}

// world: 2 parents, children of each, plain entities; archetypes are created AFTER the filters
// when late is true (first Query() takes the lazy hint-refresh path).
type fixture struct {
	w        *ecs.World
	parents  []ecs.Entity
	children [][]ecs.Entity
	plain    []ecs.Entity
	all      []ecs.Entity // everything with pos
}

func populate(w *ecs.World) *fixture {
	f := &fixture{w: w}
	mp := ecs.NewMap1[pos](w)
	mc := ecs.NewMap2[pos, childOf](w)
	mv := ecs.NewMap2[pos, vel](w)
	for i := 0; i < 2; i++ {
		f.parents = append(f.parents, w.NewEntity())
	}
	f.children = make([][]ecs.Entity, 2)
	for p := 0; p < 2; p++ {
		for k := 0; k < 2; k++ {
			e := mc.NewEntity(&pos{X: int64(10*p + k + 1)}, &childOf{}, ecs.RelIdx(1, f.parents[p]))
			f.children[p] = append(f.children[p], e)
			f.all = append(f.all, e)
		}
	}
	for k := 0; k < 2; k++ {
		e := mp.NewEntity(&pos{X: int64(100 + k)})
		f.plain = append(f.plain, e)
		f.all = append(f.all, e)
	}
	e := mv.NewEntity(&pos{X: 1000}, &vel{V: 1})
	f.all = append(f.all, e)
	return f
}

func sumOf(w *ecs.World, es []ecs.Entity) int64 {
	mp := ecs.NewMap1[pos](w)
	var s int64
	for _, e := range es {
		s += mp.Get(e).X
	}
	return s
}

const maxIter = 64

func iterAll1(q ecs.Query1[pos], r *tres) {
	n := 0
	for q.Next() {
		r.visited = append(r.visited, q.Entity())
		r.sum += q.Get().X
		n++
		if n > maxIter {
			r.err = "runaway iteration"
			q.Close()
			return
		}
	}
}

func scenarios() []scenario {
	var out []scenario

	// --- shared un-cached Filter1, archetypes created after the filter (lazy hint refresh races)
	for _, nt := range []int{2, 3} {
		nt := nt
		out = append(out, scenario{name: fmt.Sprintf("shared-uncached-first-use/%dthr", nt), threads: nt, build: func() ([]func(*tres), []tres, func() string) {
			w := ecs.NewWorld(4)
			flt := ecs.NewFilter1[pos](w)
			fx := populate(w)
			var bodies []func(*tres)
			var exp []tres
			for i := 0; i < nt; i++ {
				i := i
				if i == 1 {
					bodies = append(bodies, func(r *tres) {
						q := flt.Query()
						r.count = q.Count()
						r.at0 = q.EntityAt(0)
						q.Close()
					})
					exp = append(exp, tres{count: len(fx.all)})
				} else {
					bodies = append(bodies, func(r *tres) { q := flt.Query(); iterAll1(q, r) })
					exp = append(exp, tres{visited: fx.all, sum: sumOf(w, fx.all)})
				}
			}
			return bodies, exp, finalCheck(w, 0)
		}})
	}

	// --- shared un-cached filter, used once sequentially, then the archetype set changes, then concurrent use
	out = append(out, scenario{name: "shared-uncached-after-archetype-change/2thr", threads: 2, build: func() ([]func(*tres), []tres, func() string) {
		w := ecs.NewWorld(4)
		flt := ecs.NewFilter1[pos](w)
		fx := populate(w)
		q := flt.Query()
		q.Close()
		mt := ecs.NewMap2[pos, tag](w) // new archetype: registry version changes
		e := mt.NewEntity(&pos{X: 5000}, &tag{})
		fx.all = append(fx.all, e)
		bodies := []func(*tres){
			func(r *tres) { q := flt.Query(); iterAll1(q, r) },
			func(r *tres) { q := flt.Query(); iterAll1(q, r) },
		}
		exp := []tres{{visited: fx.all, sum: sumOf(w, fx.all)}, {visited: fx.all, sum: sumOf(w, fx.all)}}
		return bodies, exp, finalCheck(w, 0)
	}})

	// --- distinct filters
	out = append(out, scenario{name: "distinct-filters/2thr", threads: 2, build: func() ([]func(*tres), []tres, func() string) {
		w := ecs.NewWorld(4)
		f1 := ecs.NewFilter1[pos](w)
		f2 := ecs.NewFilter2[pos, childOf](w)
		fx := populate(w)
		kids := append(append([]ecs.Entity{}, fx.children[0]...), fx.children[1]...)
		bodies := []func(*tres){
			func(r *tres) { q := f1.Query(); iterAll1(q, r) },
			func(r *tres) {
				q := f2.Query()
				for q.Next() {
					p, _ := q.Get()
					r.visited = append(r.visited, q.Entity())
					r.sum += p.X
				}
			},
		}
		exp := []tres{{visited: fx.all, sum: sumOf(w, fx.all)}, {visited: kids, sum: sumOf(w, kids)}}
		return bodies, exp, finalCheck(w, 0)
	}})

	// --- shared cached (registered) filter
	out = append(out, scenario{name: "shared-cached/2thr", threads: 2, build: func() ([]func(*tres), []tres, func() string) {
		w := ecs.NewWorld(4)
		flt := ecs.NewFilter1[pos](w).Register()
		fx := populate(w)
		bodies := []func(*tres){
			func(r *tres) { q := flt.Query(); iterAll1(q, r) },
			func(r *tres) {
				q := flt.Query()
				r.count = q.Count()
				q.Next()
				r.visited = append(r.visited, q.Entity())
				q.Close()
				q.Close()
			},
		}
		exp := []tres{{visited: fx.all, sum: sumOf(w, fx.all)}, {count: len(fx.all), visited: nil}}
		return bodies, exp, finalCheck(w, 0)
	}})

	// --- shared filter with per-thread relation targets (example parallel_queries)
	for _, nt := range []int{2, 3} {
		nt := nt
		out = append(out, scenario{name: fmt.Sprintf("shared-relation-targets/%dthr", nt), threads: nt, build: func() ([]func(*tres), []tres, func() string) {
			w := ecs.NewWorld(4)
			flt := ecs.NewFilter2[pos, childOf](w)
			fx := populate(w)
			var bodies []func(*tres)
			var exp []tres
			for i := 0; i < nt; i++ {
				p := i % 2
				bodies = append(bodies, func(r *tres) {
					q := flt.Query(ecs.RelIdx(1, fx.parents[p]))
					for q.Next() {
						ps, _ := q.Get()
						r.visited = append(r.visited, q.Entity())
						r.sum += ps.X
						if q.GetRelation(1) != fx.parents[p] {
							r.err = "query yields an entity of another parent"
						}
					}
				})
				exp = append(exp, tres{visited: fx.children[p], sum: sumOf(w, fx.children[p])})
			}
			return bodies, exp, finalCheck(w, 0)
		}})
	}

	// --- shared filter that was used for a Batch before (its relation slice has spare capacity),
	//     then concurrent queries with different per-query targets
	out = append(out, scenario{name: "shared-relation-targets-after-batch/2thr", threads: 2, build: func() ([]func(*tres), []tres, func() string) {
		w := ecs.NewWorld(4)
		flt := ecs.NewFilter2[pos, childOf](w)
		fx := populate(w)
		extra := w.NewEntity()
		mv := ecs.NewMap1[vel](w)
		mv.AddBatch(flt.Batch(ecs.RelIdx(1, extra)), &vel{V: 3}) // matches nothing; leaves capacity in the filter's slice
		var bodies []func(*tres)
		var exp []tres
		for i := 0; i < 2; i++ {
			p := i
			bodies = append(bodies, func(r *tres) {
				q := flt.Query(ecs.RelIdx(1, fx.parents[p]))
				for q.Next() {
					ps, _ := q.Get()
					r.visited = append(r.visited, q.Entity())
					r.sum += ps.X
					if q.GetRelation(1) != fx.parents[p] {
						r.err = "query yields an entity of another parent"
					}
				}
			})
			exp = append(exp, tres{visited: fx.children[p], sum: sumOf(w, fx.children[p])})
		}
		return bodies, exp, finalCheck(w, 0)
	}})

	// --- the same for every generated filter arity 1..8 (relation component last)
	for n := 1; n <= 8; n++ {
		n := n
		out = append(out, scenario{name: fmt.Sprintf("shared-relation-targets-after-batch-arity%d/2thr", n), threads: 2, build: func() ([]func(*tres), []tres, func() string) {
			w := ecs.NewWorld(4)
			batch, query := relArityFilter(w, n)
			rel := ecs.ComponentID[childOf](w)
			ids := []ecs.ID{ecs.ComponentID[pos](w), ecs.ComponentID[vel](w), ecs.ComponentID[tag](w), ecs.ComponentID[c4](w),
				ecs.ComponentID[c5](w), ecs.ComponentID[c6](w), ecs.ComponentID[c7](w), rel}
			parents := []ecs.Entity{w.NewEntity(), w.NewEntity()}
			children := make([][]ecs.Entity, 2)
			for p := 0; p < 2; p++ {
				for k := 0; k < 2; k++ {
					children[p] = append(children[p], w.Unsafe().NewEntityRel(ids, ecs.RelID(rel, parents[p])))
				}
			}
			w.Unsafe().NewEntity(ids[:7]...)
			batch(w.NewEntity()) // matches nothing
			var bodies []func(*tres)
			var exp []tres
			for i := 0; i < 2; i++ {
				p := i
				bodies = append(bodies, func(r *tres) { query(parents[p], r) })
				exp = append(exp, tres{visited: children[p]})
			}
			return bodies, exp, finalCheck(w, 0)
		}})
	}

	// --- one relation argument slice (type based Rel[C]) shared by all goroutines
	out = append(out, scenario{name: "shared-relation-argument/2thr", threads: 2, build: func() ([]func(*tres), []tres, func() string) {
		w := ecs.NewWorld(4)
		flt := ecs.NewFilter2[pos, childOf](w)
		fx := populate(w)
		rels := []ecs.Relation{ecs.Rel[childOf](fx.parents[0])}
		body := func(r *tres) {
			q := flt.Query(rels...)
			for q.Next() {
				ps, _ := q.Get()
				r.visited = append(r.visited, q.Entity())
				r.sum += ps.X
			}
		}
		exp := []tres{{visited: fx.children[0], sum: sumOf(w, fx.children[0])}, {visited: fx.children[0], sum: sumOf(w, fx.children[0])}}
		return []func(*tres){body, body}, exp, finalCheck(w, 0)
	}})

	// --- the same with TWO type based relation arguments (the multi-relation path resolves the component IDs
	//     lazily; the caller's slice must not be written to)
	out = append(out, scenario{name: "shared-two-relation-arguments/2thr", threads: 2, build: func() ([]func(*tres), []tres, func() string) {
		w := ecs.NewWorld(4)
		flt := ecs.NewFilter3[pos, childOf, childOf2](w)
		m := ecs.NewMap3[pos, childOf, childOf2](w)
		p1, p2 := w.NewEntity(), w.NewEntity()
		var kids []ecs.Entity
		for k := 0; k < 2; k++ {
			kids = append(kids, m.NewEntity(&pos{X: int64(k + 1)}, &childOf{}, &childOf2{}, ecs.RelIdx(1, p1), ecs.RelIdx(2, p2)))
		}
		m.NewEntity(&pos{X: 50}, &childOf{}, &childOf2{}, ecs.RelIdx(1, p2), ecs.RelIdx(2, p1))
		rels := []ecs.Relation{ecs.Rel[childOf](p1), ecs.Rel[childOf2](p2)}
		body := func(r *tres) {
			q := flt.Query(rels...)
			for q.Next() {
				ps, _, _ := q.Get()
				r.visited = append(r.visited, q.Entity())
				r.sum += ps.X
			}
		}
		exp := []tres{{visited: kids, sum: 3}, {visited: kids, sum: 3}}
		return []func(*tres){body, body}, exp, finalCheck(w, 0)
	}})

	// --- every generated filter arity (Filter0..Filter8), shared and un-cached, first use concurrent
	for n := 0; n <= 8; n++ {
		n := n
		out = append(out, scenario{name: fmt.Sprintf("shared-uncached-arity%d/2thr", n), threads: 2, build: func() ([]func(*tres), []tres, func() string) {
			w := ecs.NewWorld(4)
			iter := arityFilter(w, n) // filter created before the archetypes
			ids := []ecs.ID{ecs.ComponentID[pos](w), ecs.ComponentID[vel](w), ecs.ComponentID[tag](w), ecs.ComponentID[c4](w),
				ecs.ComponentID[c5](w), ecs.ComponentID[c6](w), ecs.ComponentID[c7](w), ecs.ComponentID[c8](w)}
			var all []ecs.Entity
			for k := 0; k < 3; k++ {
				all = append(all, w.Unsafe().NewEntity(ids...))
			}
			all = append(all, w.Unsafe().NewEntity(append([]ecs.ID{ecs.ComponentID[c9](w)}, ids...)...))
			if n == 0 {
				all = append(all, w.NewEntity())
			} else {
				w.NewEntity()
			}
			body := func(r *tres) { iter(r) }
			exp := []tres{{visited: all}, {visited: all}}
			return []func(*tres){body, body}, exp, finalCheck(w, 0)
		}})
	}

	// --- shared UnsafeFilter with per-goroutine relation targets
	out = append(out, scenario{name: "shared-unsafe-relation-targets/2thr", threads: 2, build: func() ([]func(*tres), []tres, func() string) {
		w := ecs.NewWorld(4)
		pid := ecs.ComponentID[pos](w)
		cid := ecs.ComponentID[childOf](w)
		flt := ecs.NewUnsafeFilter(w, pid, cid)
		fx := populate(w)
		var bodies []func(*tres)
		var exp []tres
		for i := 0; i < 2; i++ {
			p := i
			bodies = append(bodies, func(r *tres) {
				q := flt.Query(ecs.RelID(cid, fx.parents[p]))
				r.count = q.Count()
				for q.Next() {
					r.visited = append(r.visited, q.Entity())
					r.sum += (*pos)(q.Get(pid)).X
					if q.GetRelation(cid) != fx.parents[p] {
						r.err = "query yields an entity of another parent"
					}
				}
			})
			exp = append(exp, tres{visited: fx.children[p], sum: sumOf(w, fx.children[p]), count: len(fx.children[p])})
		}
		return bodies, exp, finalCheck(w, 0)
	}})

	// --- unsafe filter shared
	out = append(out, scenario{name: "shared-unsafe/2thr", threads: 2, build: func() ([]func(*tres), []tres, func() string) {
		w := ecs.NewWorld(4)
		pid := ecs.ComponentID[pos](w)
		flt := ecs.NewUnsafeFilter(w, pid)
		fx := populate(w)
		body := func(r *tres) {
			q := flt.Query()
			for q.Next() {
				r.visited = append(r.visited, q.Entity())
				r.sum += (*pos)(q.Get(pid)).X
			}
		}
		exp := []tres{{visited: fx.all, sum: sumOf(w, fx.all)}, {visited: fx.all, sum: sumOf(w, fx.all)}}
		return []func(*tres){body, body}, exp, finalCheck(w, 0)
	}})

	// --- 61 queries already open: three concurrent ones get bits 61..63
	out = append(out, scenario{name: "61-open/3thr", threads: 3, build: func() ([]func(*tres), []tres, func() string) {
		w := ecs.NewWorld(4)
		flt := ecs.NewFilter1[pos](w)
		fx := populate(w)
		held := make([]ecs.Query1[pos], 61)
		for i := range held {
			held[i] = flt.Query()
		}
		body := func(r *tres) { q := flt.Query(); iterAll1(q, r) }
		exp := make([]tres, 3)
		for i := range exp {
			exp[i] = tres{visited: fx.all, sum: sumOf(w, fx.all)}
		}
		fin := func() string {
			if !w.IsLocked() {
				return "world unlocked although 61 queries are still open"
			}
			for i := range held {
				held[i].Close()
			}
			return finalCheck(w, 0)()
		}
		return []func(*tres){body, body, body}, exp, fin
	}})
	return out
}

// finalCheck: after all threads finished the world must be unlocked and 64 fresh queries can be opened.
func finalCheck(w *ecs.World, stillOpen int) func() string {
	return func() (msg string) {
		defer func() {
			if r := recover(); r != nil {
				msg = fmt.Sprintf("opening 64 fresh queries after the concurrent round panicked: %v", r)
			}
		}()
		if w.IsLocked() {
			return "world still locked after all queries finished"
		}
		f := ecs.NewFilter0(w)
		qs := make([]ecs.Query0, 64)
		for i := range qs {
			qs[i] = f.Query()
		}
		for i := range qs {
			qs[i].Close()
		}
		if w.IsLocked() {
			return "world locked after closing 64 fresh queries"
		}
		return ""
	}
}

type runResult struct {
	points []vsync.Point
	msg    string
}

func runOne(sc *scenario, prefix []int32) runResult {
	bodies, exp, final := sc.build()
	n := len(bodies)
	res := make([]tres, n)
	vsync.Setup(n, prefix)
	var wg sync.WaitGroup
	for i := 0; i < n; i++ {
		wg.Add(1)
		go func(id int) {
			defer wg.Done()
			vsync.ThreadBegin(id)
			func() {
				defer func() {
					if r := recover(); r != nil {
						res[id].err = fmt.Sprintf("panic: %v", r)
					}
				}()
				bodies[id](&res[id])
			}()
			vsync.ThreadEnd(id)
		}(i)
	}
	vsync.Start()
	wg.Wait()
	vsync.Stop()
	rr := runResult{points: vsync.Trace()}
	if vsync.BadChoice() {
		rr.msg = "HARNESS: replayed prefix diverged (choice out of range)"
		return rr
	}
	for i := 0; i < n; i++ {
		r, e := &res[i], &exp[i]
		switch {
		case r.err != "":
			rr.msg = fmt.Sprintf("thread %d: %s", i, r.err)
		case e.visited != nil && !sameSet(r.visited, e.visited):
			rr.msg = fmt.Sprintf("thread %d visited %v, expected exactly %v", i, r.visited, e.visited)
		case e.visited != nil && r.sum != e.sum:
			rr.msg = fmt.Sprintf("thread %d read component sum %d, expected %d", i, r.sum, e.sum)
		case e.count != 0 && r.count != e.count:
			rr.msg = fmt.Sprintf("thread %d Count()=%d, expected %d", i, r.count, e.count)
		}
		if rr.msg != "" {
			return rr
		}
	}
	if m := final(); m != "" {
		rr.msg = m
	}
	return rr
}

type stats struct {
	Scenario  string `json:"scenario"`
	Schedules int    `json:"schedules"`
	Points    int    `json:"points"`
	MaxPoints int    `json:"max_points"`
	Bound     int    `json:"preemption_bound"`
	Unbounded bool   `json:"unbounded"`
	Violation string `json:"violation,omitempty"`
	Schedule  string `json:"schedule,omitempty"`
	Distinct  int    `json:"distinct_thread_orders"`
	Truncated bool   `json:"truncated"`
	MaxSched  int    `json:"max_schedules"`
}

func fmtSched(p []int32) string {
	s := make([]string, len(p))
	for i, c := range p {
		s[i] = strconv.Itoa(int(c))
	}
	return strings.Join(s, ",")
}

func parseSched(s string) []int32 {
	if s == "" {
		return nil
	}
	var out []int32
	for _, f := range strings.Split(s, ",") {
		v, _ := strconv.Atoi(f)
		out = append(out, int32(v))
	}
	return out
}

func main() {
	runtime.GOMAXPROCS(1)
	scName := flag.String("scenario", "", "scenario name (empty: list)")
	bound := flag.Int("bound", -1, "preemption bound (-1: unbounded)")
	replay := flag.String("replay", "", "run exactly this schedule (comma separated choices)")
	maxSched := flag.Int("max", 2000000, "maximum number of schedules")
	free := flag.Int("free", 0, "auxiliary: run the scenario's thread bodies N times as free-running goroutines (no controlled scheduler)")
	flag.Parse()
	scs := scenarios()
	if *scName == "" {
		for _, s := range scs {
			fmt.Println(s.name)
		}
		return
	}
	var sc *scenario
	for i := range scs {
		if scs[i].name == *scName {
			sc = &scs[i]
		}
	}
	if sc == nil {
		fmt.Fprintln(os.Stderr, "unknown scenario")
		os.Exit(2)
	}
	if *free > 0 {
		// cross-check that the controlled scheduler hides nothing: the same bodies, free running, under -race
		runtime.GOMAXPROCS(4)
		for k := 0; k < *free; k++ {
			bodies, exp, final := sc.build()
			res := make([]tres, len(bodies))
			var wg sync.WaitGroup
			for i := range bodies {
				wg.Add(1)
				go func(id int) { defer wg.Done(); bodies[id](&res[id]) }(i)
			}
			wg.Wait()
			for i := range bodies {
				if exp[i].visited != nil && !sameSet(res[i].visited, exp[i].visited) {
					fmt.Printf("RESULT {\"scenario\":%q,\"violation\":\"free-running thread %d visited a wrong set\"}\n", sc.name, i)
					os.Exit(1)
				}
			}
			if m := final(); m != "" {
				fmt.Printf("RESULT {\"scenario\":%q,\"violation\":%q}\n", sc.name, m)
				os.Exit(1)
			}
		}
		fmt.Printf("RESULT {\"scenario\":%q,\"schedules\":%d}\n", sc.name, *free)
		return
	}
	st := stats{Scenario: sc.name, Bound: *bound, Unbounded: *bound < 0, MaxSched: *maxSched}
	orders := map[string]bool{}
	emit := func() {
		st.Distinct = len(orders)
		b, _ := json.Marshal(st)
		fmt.Println("RESULT " + string(b))
	}
	if flag.Lookup("replay").Value.String() != "" || isFlagSet("replay") {
		pre := parseSched(*replay)
		fmt.Printf("SCHEDULE %s %s\n", sc.name, fmtSched(pre))
		rr := runOne(sc, pre)
		st.Schedules = 1
		st.Violation = rr.msg
		st.Schedule = fmtSched(pre)
		emit()
		if rr.msg != "" {
			os.Exit(1)
		}
		return
	}
	// explore: DFS over choice prefixes, iterative preemption bounding is done by the parent
	var explore func(prefix []int32) bool
	explore = func(prefix []int32) bool {
		if st.Schedules >= *maxSched {
			st.Truncated = true
			return false
		}
		fmt.Printf("SCHEDULE %s %s\n", sc.name, fmtSched(prefix))
		rr := runOne(sc, prefix)
		st.Schedules++
		st.Points += len(rr.points)
		if len(rr.points) > st.MaxPoints {
			st.MaxPoints = len(rr.points)
		}
		var ord strings.Builder
		for _, p := range rr.points {
			ord.WriteByte(byte('0' + p.Thread))
		}
		orders[ord.String()] = true
		if rr.msg != "" {
			full := make([]int32, len(rr.points))
			for i, p := range rr.points {
				full[i] = p.Choice
			}
			st.Violation = rr.msg
			st.Schedule = fmtSched(full)
			return false
		}
		// preemptions used up to each point
		pre := 0
		cost := make([]int, len(rr.points))
		for i, p := range rr.points {
			cost[i] = pre
			if p.RunningEnabled && p.Choice != 0 {
				pre++
			}
		}
		for i := len(prefix); i < len(rr.points); i++ {
			p := rr.points[i]
			c := cost[i]
			if p.RunningEnabled {
				c++
			}
			if *bound >= 0 && c > *bound {
				continue
			}
			for alt := int32(1); alt < p.Enabled; alt++ {
				np := make([]int32, i+1)
				for j := 0; j < i; j++ {
					np[j] = rr.points[j].Choice
				}
				np[i] = alt
				if !explore(np) {
					return false
				}
			}
		}
		return true
	}
	explore(nil)
	emit()
	if st.Violation != "" {
		os.Exit(1)
	}
}

func isFlagSet(name string) bool {
	set := false
	flag.Visit(func(f *flag.Flag) {
		if f.Name == name {
			set = true
		}
	})
	return set
}
