// Command check runs the model-checking check of one property.
//
//	check <Cxx> [--tier quick|thorough] [--replay file] [--budget seconds]
//
// Exit 0: property held on everything explored (KNOWN-FINDING lines may be printed).
// Exit 1: "VIOLATION property=<id> replay=<path>".
package main

import (
	"bufio"
	"bytes"
	"encoding/json"
	"flag"
	"fmt"
	"os"
	"os/exec"
	"path/filepath"
	"runtime"
	"sort"
	"strconv"
	"strings"
	"sync"
	"time"

	"verif/mc/drv"
	"verif/mc/engine"
	"verif/mc/model"
	"verif/mc/props"
)

var root = props.Root()

type knownFinding struct {
	Status    string `json:"status"` // known | fixed
	Property  string `json:"property"`
	Signature string `json:"signature"`
	What      string `json:"what"`
	Line      string `json:"line"`
	Commit    string `json:"commit,omitempty"`
}

func loadKnown() []knownFinding {
	f, err := os.Open(filepath.Join(root, "known_findings.jsonl"))
	if err != nil {
		return nil
	}
	defer f.Close()
	var out []knownFinding
	sc := bufio.NewScanner(f)
	sc.Buffer(make([]byte, 1<<20), 1<<20)
	for sc.Scan() {
		line := strings.TrimSpace(sc.Text())
		if line == "" || strings.HasPrefix(line, "#") {
			continue
		}
		var k knownFinding
		if json.Unmarshal([]byte(line), &k) == nil {
			out = append(out, k)
		}
	}
	return out
}

type replayFile struct {
	Property  string          `json:"property"`
	Scenario  string          `json:"scenario"`
	Cfg       drv.Config      `json:"cfg"`
	Ops       []model.Op      `json:"ops"`
	OpsText   []string        `json:"ops_text"`
	Violation drv.Violation   `json:"violation"`
	Signature string          `json:"signature"`
	Extra     json.RawMessage `json:"extra,omitempty"`
	Note      string          `json:"note,omitempty"`
}

func signature(id string, f *engine.Found) string {
	return id + "|" + f.V.Kind + "|" + f.OpKind
}

func main() {
	tierS := flag.String("tier", "", "quick or thorough")
	replay := flag.String("replay", "", "replay file")
	budget := flag.Int("budget", 0, "wall-clock budget in seconds (0: tier default)")
	sub := flag.String("sub", "", "internal: run the sub mode of a property in this (tagged) build and print JSON")
	shardS := flag.String("shard", "", "internal: i/n - explore only every n-th subtree and print a JSON report")
	procs := flag.Int("procs", 0, "number of shard processes (default: number of CPUs)")
	flag.CommandLine.Parse(reorder(os.Args[1:]))
	if *sub != "" || *shardS != "" {
		// worker process: never outlive the parent (a killed or timed-out parent must not leave workers behind)
		pp := os.Getppid()
		go func() {
			for {
				time.Sleep(2 * time.Second)
				if os.Getppid() != pp {
					os.Exit(3)
				}
			}
		}()
	}
	if *sub != "" {
		f, ok := props.SubModes[*sub]
		if !ok {
			fmt.Fprintln(os.Stderr, "no sub mode for", *sub)
			os.Exit(2)
		}
		r := f(flag.Args())
		r.Tags = fmt.Sprintf("tiny=%v debug=%v", props.BuildTiny, props.BuildDebug)
		b, _ := json.Marshal(r)
		os.Stdout.Write(b)
		os.Exit(0)
	}
	if flag.NArg() < 1 {
		fmt.Fprintln(os.Stderr, "usage: check <Cxx> [--tier quick|thorough] [--replay file]")
		os.Exit(2)
	}
	id := flag.Arg(0)
	if *tierS == "" {
		*tierS = os.Getenv("VERIF_TIER")
	}
	if *tierS == "" {
		*tierS = "quick"
	}
	tier := props.Quick
	if *tierS == "thorough" {
		tier = props.Thorough
	}
	seed, _ := strconv.Atoi(os.Getenv("VERIF_SEED"))
	build, ok := props.Registry[id]
	if !ok {
		fmt.Fprintf(os.Stderr, "no check for %s\n", id)
		os.Exit(2)
	}
	chk := build(tier)
	if *replay != "" {
		os.Exit(doReplay(chk, *replay))
	}
	if *budget == 0 {
		*budget = 480
		if tier == props.Thorough {
			*budget = 3600
		}
	}
	t0 := time.Now()
	deadline := t0.Add(time.Duration(*budget) * time.Second)
	if os.Getenv("VERIF_DEADLINE") == "" {
		props.SetSubDeadline(deadline)
	}
	if only := os.Getenv("VERIF_ONLY"); only != "" {
		// debugging aid: restrict the check to the scenarios whose name contains the substring
		var keep []*engine.Scenario
		for _, sc := range chk.Scenarios {
			if strings.Contains(sc.Name, only) {
				keep = append(keep, sc)
			}
		}
		chk.Scenarios = keep
	}
	total := &engine.Report{Exhaustive: true, Shallow: true}
	engine.HangHook = func(sc *engine.Scenario, cfg drv.Config, prelude, hist []model.Op) {
		total.Exhaustive = false
		total.PerConfig = append(total.PerConfig, fmt.Sprintf("HANG in %s: %v", sc.Name, hist))
		writeEvidence(id, *tierS, seed, chk, total, t0, nil, 0)
		os.Exit(0)
	}
	// known findings of this property do not cut the exploration below them
	{
		kf := map[string]bool{}
		for _, k := range loadKnown() {
			if k.Status == "known" && k.Property == id {
				kf[k.Signature] = true
			}
		}
		if len(kf) > 0 {
			engine.Tolerate = func(kind, opKind string) bool { return kf[id+"|"+kind+"|"+opKind] }
		}
	}
	var specialErr error
	if *shardS != "" {
		// child: explore one shard, print a JSON report, exit
		var shard, nshard int
		fmt.Sscanf(*shardS, "%d/%d", &shard, &nshard)
		if chk.Special != nil && chk.SpecialSharded {
			props.Shard, props.NShard = shard, nshard
			specialErr = chk.Special(tier, total)
		}
		spStates, spNT := total.States, total.NonTrivial
		states, nts := map[uint64]struct{}{}, map[uint64]struct{}{}
		// iterate the bound: first every scenario with the depth bound reduced by one (about a tenth of the
		// work), then with the full bound; if the wall-clock budget runs out during the second pass, every
		// scenario has still been covered completely up to depth-1
		for pass := 0; pass < 2; pass++ {
			for _, sc := range chk.Scenarios {
				full := sc.Depth
				if pass == 0 {
					if full < 2 {
						continue
					}
					sc.Depth = full - 1
				}
				rep := engine.Explore(sc, engine.Options{Deadline: deadline, Workers: 1, Shard: shard, NShard: nshard,
					Signature: func(f *engine.Found) string { return signature(id, f) }})
				sc.Depth = full
				if pass == 0 {
					// the shallow pass decides Shallow, the full pass Exhaustive
					rep.Shallow = rep.Exhaustive
					rep.Exhaustive = true
					rep.PerConfig = nil
				}
				merge(total, rep)
				for k := range rep.StateSet {
					states[hashMix(k, sc.Name)] = struct{}{}
				}
				for k := range rep.NTSet {
					nts[hashMix(k, sc.Name)] = struct{}{}
				}
			}
		}
		if specialErr != nil {
			total.Exhaustive = false
			total.PerConfig = append(total.PerConfig, "HARNESS ERROR: "+specialErr.Error())
		}
		out := childReport{Report: total, States: keys(states), NT: keys(nts), SpStates: spStates, SpNT: spNT}
		b, _ := json.Marshal(&out)
		os.Stdout.Write(b)
		os.Exit(0)
	}
	if chk.Special != nil && !chk.SpecialSharded {
		specialErr = chk.Special(tier, total)
	}
	if len(chk.Scenarios) > 0 || (chk.Special != nil && chk.SpecialSharded) {
		n := *procs
		if n <= 0 {
			n = runtime.NumCPU()
		}
		if err := runShards(id, *tierS, *budget, n, total); err != nil && specialErr == nil {
			specialErr = err
		}
	}
	if specialErr != nil {
		fmt.Fprintf(os.Stderr, "harness error (no verdict): %v\n", specialErr)
		total.Exhaustive = false
		total.PerConfig = append(total.PerConfig, "HARNESS ERROR: "+specialErr.Error())
	}
	// classify findings
	known := loadKnown()
	var violations []engine.Found
	knownHit := map[string]int{}
	sort.SliceStable(total.Found, func(i, j int) bool { return len(total.Found[i].Hist) < len(total.Found[j].Hist) })
	{
		// shards report the same signature independently: keep the shortest history of each
		seenSig := map[string]bool{}
		var uniq []engine.Found
		for _, f := range total.Found {
			sg := signature(id, &f) + "|" + f.Scenario
			if !seenSig[sg] {
				seenSig[sg] = true
				uniq = append(uniq, f)
			}
		}
		total.Found = uniq
	}
	for _, f := range total.Found {
		sig := signature(id, &f)
		matched := false
		for _, k := range known {
			if k.Status == "known" && k.Property == id && k.Signature == sig {
				matched = true
				knownHit[sig]++
				if knownHit[sig] == 1 {
					fmt.Printf("KNOWN-FINDING: property=%s %s [%s]\n", id, k.What, sig)
				}
			}
		}
		if !matched {
			violations = append(violations, f)
		}
	}
	code := 0
	var replayPaths []string
	for _, f := range violations {
		// confirm: the failing history must reproduce 5/5
		okAll := true
		for k := 0; k < 5; k++ {
			if !reproduces(chk, &f) {
				okAll = false
			}
		}
		if !okAll {
			fmt.Fprintf(os.Stderr, "harness: violation did not reproduce 5/5, not reported: %v\n", f.V)
			total.Exhaustive = false
			total.PerConfig = append(total.PerConfig, "NON-REPRODUCIBLE (dropped): "+f.V.Error())
			continue
		}
		p := writeReplay(id, &f)
		replayPaths = append(replayPaths, p)
		fmt.Printf("VIOLATION property=%s replay=%s\n", id, p)
		h := f.Hist
		if len(h) > 12 {
			h = h[len(h)-12:]
		}
		fmt.Printf("  %s: %s %s\n  history (last %d of %d ops): %v\n", f.Scenario, f.V.Error(), f.Note, len(h), len(f.Hist), h)
		code = 1
	}
	writeEvidence(id, *tierS, seed, chk, total, t0, replayPaths, len(knownHit))
	fmt.Printf("%s %s: histories=%d transitions=%d states=%d nontrivial=%d queries=%d callbacks=%d exhaustive=%v violations=%d known=%d wall=%.1fs\n",
		id, *tierS, total.Histories, total.Transitions, total.States, total.NonTrivial, total.Queries, total.Callbacks, total.Exhaustive, len(replayPaths), len(knownHit), time.Since(t0).Seconds())
	os.Exit(code)
}

// reorder moves flags before positional args so "check C01 --tier quick" works.
func reorder(args []string) []string {
	var flags, pos []string
	for i := 0; i < len(args); i++ {
		a := args[i]
		if strings.HasPrefix(a, "-") {
			flags = append(flags, a)
			if !strings.Contains(a, "=") && i+1 < len(args) {
				flags = append(flags, args[i+1])
				i++
			}
		} else {
			pos = append(pos, a)
		}
	}
	return append(flags, pos...)
}

type childReport struct {
	Report   *engine.Report
	States   []uint64
	NT       []uint64
	SpStates int64
	SpNT     int64
}

func keys(m map[uint64]struct{}) []uint64 {
	out := make([]uint64, 0, len(m))
	for k := range m {
		out = append(out, k)
	}
	return out
}

func hashMix(k uint64, name string) uint64 {
	h := uint64(1469598103934665603)
	for i := 0; i < len(name); i++ {
		h = (h ^ uint64(name[i])) * 1099511628211
	}
	return k ^ h
}

// runShards re-executes this binary n times with GOMAXPROCS=1 (process-level sharding is
// ~16x faster than goroutines here: the workload is allocation/GC bound) and merges the reports.
func runShards(id, tier string, budget, n int, total *engine.Report) error {
	self, err := os.Executable()
	if err != nil {
		return err
	}
	outs := make([][]byte, n)
	errs := make([]error, n)
	var wg sync.WaitGroup
	for i := 0; i < n; i++ {
		wg.Add(1)
		go func(i int) {
			defer wg.Done()
			cmd := exec.Command(self, id, "--tier", tier, "--budget", strconv.Itoa(budget), "--shard", fmt.Sprintf("%d/%d", i, n))
			cmd.Env = append(os.Environ(), "GOMAXPROCS=1")
			var stderr bytes.Buffer
			cmd.Stderr = &stderr
			outs[i], errs[i] = cmd.Output()
			if errs[i] != nil {
				se := stderr.String()
				if strings.Contains(se, "fatal error") {
					errs[i] = fmt.Errorf("shard %d: %v: %s", i, errs[i], firstLines(se, "fatal error", 40))
				} else {
					errs[i] = fmt.Errorf("shard %d: %v: %s", i, errs[i], tailStr(se, 2000))
				}
			}
		}(i)
	}
	wg.Wait()
	states, nts := map[uint64]struct{}{}, map[uint64]struct{}{}
	perCfg := map[string]bool{}
	for i := 0; i < n; i++ {
		if errs[i] != nil && strings.Contains(errs[i].Error(), "fatal error") && strings.Contains(errs[i].Error(), "mlange-42/ark/ecs") {
			// the implementation killed the process (Go fatal error inside package ecs): find the history
			tf := filepath.Join(root, ".work", fmt.Sprintf("trace_%s_%d", id, i))
			cmd := exec.Command(self, id, "--tier", tier, "--budget", strconv.Itoa(budget), "--shard", fmt.Sprintf("%d/%d", i, n))
			cmd.Env = append(os.Environ(), "GOMAXPROCS=1", "VERIF_TRACE_HIST="+tf)
			cmd.Run()
			var tr engine.TraceRecord
			if b, err := os.ReadFile(tf); err == nil && json.Unmarshal(bytes.TrimSpace(b), &tr) == nil {
				opk := ""
				if len(tr.Hist) > 0 {
					opk = tr.Hist[len(tr.Hist)-1].K.String()
				}
				total.Found = append(total.Found, engine.Found{Scenario: tr.Scenario, Cfg: tr.Cfg, Hist: tr.Hist, OpKind: opk,
					V: drv.Violation{Kind: "crash", Step: len(tr.Hist), Msg: "the process was killed by a Go fatal error inside package ecs while executing this history: " + firstLines(errs[i].Error(), "fatal error", 14)}})
				os.Remove(tf)
				continue
			}
			return errs[i]
		}
		if errs[i] != nil {
			return errs[i]
		}
		var cr childReport
		if err := json.Unmarshal(outs[i], &cr); err != nil || cr.Report == nil {
			return fmt.Errorf("shard %d: unreadable report: %v", i, err)
		}
		r := cr.Report
		pc := r.PerConfig
		r.PerConfig = nil
		r.States, r.NonTrivial = cr.SpStates, cr.SpNT
		merge(total, r)
		for _, l := range pc {
			// per-config lines of shards differ in counts; keep shard 0's plus any anomaly lines
			if i == 0 || strings.Contains(l, "DEADLINE") || strings.Contains(l, "HARNESS") || strings.Contains(l, "HANG") {
				if !perCfg[l] {
					perCfg[l] = true
					total.PerConfig = append(total.PerConfig, fmt.Sprintf("[shard %d/%d] %s", i, n, l))
				}
			}
		}
		for _, k := range cr.States {
			states[k] = struct{}{}
		}
		for _, k := range cr.NT {
			nts[k] = struct{}{}
		}
	}
	total.States += int64(len(states))
	total.NonTrivial += int64(len(nts))
	return nil
}

// firstLines returns up to n lines of s starting at the first line containing marker.
func firstLines(s, marker string, n int) string {
	i := strings.Index(s, marker)
	if i < 0 {
		return ""
	}
	lines := strings.Split(s[i:], "\n")
	if len(lines) > n {
		lines = lines[:n]
	}
	return strings.Join(lines, "\n")
}

func tailStr(s string, n int) string {
	if len(s) > n {
		return s[len(s)-n:]
	}
	return s
}

func merge(t, r *engine.Report) {
	t.Histories += r.Histories
	t.Transitions += r.Transitions
	t.States += r.States
	t.NonTrivial += r.NonTrivial
	t.Queries += r.Queries
	t.Callbacks += r.Callbacks
	t.Panics += r.Panics
	t.FoundTotal += r.FoundTotal
	t.Exhaustive = t.Exhaustive && r.Exhaustive
	t.Shallow = t.Shallow && r.Shallow
	t.Found = append(t.Found, r.Found...)
	t.PerConfig = append(t.PerConfig, r.PerConfig...)
	for _, s := range r.Samples {
		if len(t.Samples) < 8 {
			t.Samples = append(t.Samples, s)
		}
	}
	if r.MaxDepth > t.MaxDepth {
		t.MaxDepth = r.MaxDepth
	}
}

func findScenario(chk *props.Check, name string) *engine.Scenario {
	for _, sc := range chk.Scenarios {
		if sc.Name == name {
			return sc
		}
	}
	return nil
}

func reproduces(chk *props.Check, f *engine.Found) bool {
	sc := findScenario(chk, f.Scenario)
	if sc == nil {
		if chk.Confirm != nil && f.Raw != nil {
			return chk.Confirm(f.Raw)
		}
		return true
	}
	if f.V.Kind == "crash" {
		// must not be replayed in this process: run the replay in a child and expect it to die the same way
		p := writeReplay(chk.ID, f)
		self, _ := os.Executable()
		cmd := exec.Command(self, chk.ID, "--replay", p)
		var stderr bytes.Buffer
		cmd.Stderr = &stderr
		err := cmd.Run()
		return err != nil && strings.Contains(stderr.String(), "fatal error")
	}
	_, v := engine.RunHistory(sc, f.Cfg, nil, f.Hist)
	return v != nil && v.Kind == f.V.Kind
}

func writeReplay(id string, f *engine.Found) string {
	dir := filepath.Join(root, "replays")
	os.MkdirAll(dir, 0o755)
	rf := replayFile{Property: id, Scenario: f.Scenario, Cfg: f.Cfg, Ops: f.Hist, Violation: f.V, Signature: signature(id, f)}
	for _, op := range f.Hist {
		rf.OpsText = append(rf.OpsText, op.String())
	}
	if f.Raw != nil {
		rf.Extra = json.RawMessage(f.Raw)
	}
	rf.Note = f.Note
	b, _ := json.MarshalIndent(rf, "", " ")
	name := fmt.Sprintf("%s-%s-%s-%08x.json", id, f.V.Kind, f.OpKind, hash32(string(b)))
	p := filepath.Join(dir, name)
	os.WriteFile(p, b, 0o644)
	return p
}

func hash32(s string) uint32 {
	var h uint32 = 2166136261
	for i := 0; i < len(s); i++ {
		h = (h ^ uint32(s[i])) * 16777619
	}
	return h
}

func doReplay(chk *props.Check, path string) int {
	b, err := os.ReadFile(path)
	if err != nil {
		fmt.Fprintln(os.Stderr, err)
		return 2
	}
	var rf replayFile
	if err := json.Unmarshal(b, &rf); err != nil {
		fmt.Fprintln(os.Stderr, err)
		return 2
	}
	sc := findScenario(chk, rf.Scenario)
	if sc == nil {
		if chk.Replay != nil {
			return chk.Replay(b)
		}
		fmt.Fprintf(os.Stderr, "scenario %q not found\n", rf.Scenario)
		return 2
	}
	_, v := engine.RunHistory(sc, rf.Cfg, nil, rf.Ops)
	for i, op := range rf.Ops {
		fmt.Printf("  %2d %v\n", i+1, op)
	}
	if v != nil {
		fmt.Printf("VIOLATION property=%s replay=%s\n  %s\n", rf.Property, path, v.Error())
		return 1
	}
	fmt.Println("replay: no violation")
	return 0
}

type evidence struct {
	PropertyID  string         `json:"property_id"`
	Tier        string         `json:"tier"`
	Seed        int            `json:"seed"`
	Level       string         `json:"level"`
	Coverage    map[string]any `json:"coverage"`
	Assumptions []string       `json:"assumptions"`
	WallS       float64        `json:"wall_s"`
	Violations  int            `json:"violations"`
}

func writeEvidence(id, tier string, seed int, chk *props.Check, rep *engine.Report, t0 time.Time, replays []string, known int) {
	dir := filepath.Join(root, "evidence")
	if d := os.Getenv("VERIF_EVIDENCE_DIR"); d != "" {
		dir = d // mutation runs (tools/mutov.sh) must not overwrite the evidence of the real tree
	}
	os.MkdirAll(dir, 0o755)
	samples := []any{}
	for _, s := range rep.Samples {
		samples = append(samples, s)
	}
	if len(samples) == 0 {
		samples = append(samples, "no history was completed")
	}
	states := rep.States
	if states < 1 {
		states = 1
	}
	trans := rep.Transitions
	if trans < 1 {
		trans = 1
	}
	cov := map[string]any{
		"states":                        states,
		"transitions":                   trans,
		"traces_validated_against_impl": rep.Histories,
		"evaluations":                   rep.Histories,
		"distinct_nontrivial":           rep.NonTrivial,
		"rule":                          chk.Rule,
		"samples":                       samples,
		"exhaustive":                    rep.Exhaustive,
		"exhaustive_at_depth_minus_1":   rep.Shallow,
		"max_depth":                     rep.MaxDepth,
		"per_config":                    rep.PerConfig,
		"queries_evaluated":             rep.Queries,
		"observer_callbacks":            rep.Callbacks,
		"recovered_panics":              rep.Panics,
		"failing_histories":             rep.FoundTotal,
		"known_findings_hit":            known,
		"replays":                       replays,
		"explanation":                   "bounded exhaustive enumeration of operation histories executed on the real ark World in lock-step with a Go reference model; every explored trace is an implementation run",
	}
	for k, v := range rep.Extra {
		cov[k] = v
	}
	ev := evidence{PropertyID: id, Tier: tier, Seed: seed, Level: "model_checking", Coverage: cov,
		Assumptions: append([]string{"Go reference model in /verif/mc/model encodes the documented semantics", "oracles observe through exported API only"}, chk.Assume...),
		WallS:       time.Since(t0).Seconds(), Violations: len(replays)}
	b, _ := json.MarshalIndent(ev, "", " ")
	os.WriteFile(filepath.Join(dir, id+".json"), b, 0o644)
}
