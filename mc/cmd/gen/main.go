// Command gen generates api/typed_gen.go: wrappers binding every arity of ark's
// generated generic API (MapN, Map, FilterN/QueryN, ExchangeN, ObserverN) to the
// common interfaces of package api, instantiated for a fixed list of type tuples
// over the component universe of package ct.
//
// Usage: go run ./cmd/gen > api/typed_gen.go  (run from /verif/mc)
package main

import (
	"fmt"
	"os"
	"sort"
	"strings"

	"verif/mc/ct"
)

const (
	maxMap  = 12
	maxFilt = 8
	maxExch = 8
	maxObs  = 4
)

var letters = "ABCDEFGHIJKL"

func tp(n int) string { // "A, B, C"
	s := make([]string, n)
	for i := range s {
		s[i] = string(letters[i])
	}
	return strings.Join(s, ", ")
}
func tpAny(n int) string { // "A any, B any"
	s := make([]string, n)
	for i := range s {
		s[i] = string(letters[i]) + " any"
	}
	return strings.Join(s, ", ")
}
func rep(n int, f func(i int) string, sep string) string {
	s := make([]string, n)
	for i := range s {
		s[i] = f(i)
	}
	return strings.Join(s, sep)
}

var out strings.Builder

func p(format string, a ...any) { fmt.Fprintf(&out, format, a...) }

func genMap(n int) {
	T, TA := tp(n), tpAny(n)
	ptrArgs := rep(n, func(i int) string { return fmt.Sprintf("p%d *%c", i, letters[i]) }, ", ")
	ptrList := rep(n, func(i int) string { return fmt.Sprintf("unsafe.Pointer(p%d)", i) }, ", ")
	vars := rep(n, func(i int) string {
		return fmt.Sprintf("\tvar v%d %c\n\tct.Write(x.cs[%d], unsafe.Pointer(&v%d), vals[%d])\n", i, letters[i], i, i, i)
	}, "")
	addrs := rep(n, func(i int) string { return fmt.Sprintf("&v%d", i) }, ", ")
	rets := rep(n, func(i int) string { return fmt.Sprintf("p%d", i) }, ", ")
	name := fmt.Sprintf("map%dW", n)
	p("// ---- Map%d\n\ntype %s[%s] struct {\n\tenv *Env\n\tm *ecs.Map%d[%s]\n\tcs []ct.Comp\n}\n\n", n, name, TA, n, T)
	p("func new%s[%s](env *Env, cs []ct.Comp) Mapper {\n\tm := ecs.NewMap%d[%s](env.W)\n\tif env.ViaNew() {\n\t\tm = (*ecs.Map%d[%s])(nil).New(env.W)\n\t}\n\treturn &%s[%s]{env: env, m: m, cs: cs}\n}\n\n", strings.Title(name), TA, n, T, n, T, name, T)
	recv := fmt.Sprintf("func (x *%s[%s])", name, T)
	p("%s Comps() []ct.Comp { return x.cs }\n", recv)
	p("%s NewEntity(vals []int64, rels []RelArg) ecs.Entity {\n%s\treturn x.m.NewEntity(%s, x.env.rels(x.cs, rels)...)\n}\n", recv, vars, addrs)
	p("%s NewEntityFn(fn func([]unsafe.Pointer), rels []RelArg) ecs.Entity {\n\tif fn == nil {\n\t\treturn x.m.NewEntityFn(nil, x.env.rels(x.cs, rels)...)\n\t}\n\treturn x.m.NewEntityFn(func(%s) { fn([]unsafe.Pointer{%s}) }, x.env.rels(x.cs, rels)...)\n}\n", recv, ptrArgs, ptrList)
	p("%s NewBatch(n int, vals []int64, rels []RelArg) {\n%s\tx.m.NewBatch(n, %s, x.env.rels(x.cs, rels)...)\n}\n", recv, vars, addrs)
	p("%s NewBatchFn(n int, fn func(ecs.Entity, []unsafe.Pointer), rels []RelArg) {\n\tif fn == nil {\n\t\tx.m.NewBatchFn(n, nil, x.env.rels(x.cs, rels)...)\n\t\treturn\n\t}\n\tx.m.NewBatchFn(n, func(e ecs.Entity, %s) { fn(e, []unsafe.Pointer{%s}) }, x.env.rels(x.cs, rels)...)\n}\n", recv, ptrArgs, ptrList)
	p("%s Get(e ecs.Entity) []unsafe.Pointer {\n\t%s := x.m.Get(e)\n\treturn []unsafe.Pointer{%s}\n}\n", recv, rets, ptrList)
	p("%s GetUnchecked(e ecs.Entity) []unsafe.Pointer {\n\t%s := x.m.GetUnchecked(e)\n\treturn []unsafe.Pointer{%s}\n}\n", recv, rets, ptrList)
	p("%s HasAll(e ecs.Entity) bool { return x.m.HasAll(e) }\n", recv)
	p("%s Add(e ecs.Entity, vals []int64, rels []RelArg) {\n%s\tx.m.Add(e, %s, x.env.rels(x.cs, rels)...)\n}\n", recv, vars, addrs)
	p("%s AddFn(e ecs.Entity, fn func([]unsafe.Pointer), rels []RelArg) {\n\tif fn == nil {\n\t\tx.m.AddFn(e, nil, x.env.rels(x.cs, rels)...)\n\t\treturn\n\t}\n\tx.m.AddFn(e, func(%s) { fn([]unsafe.Pointer{%s}) }, x.env.rels(x.cs, rels)...)\n}\n", recv, ptrArgs, ptrList)
	p("%s Set(e ecs.Entity, vals []int64) {\n%s\tx.m.Set(e, %s)\n}\n", recv, vars, addrs)
	p("%s AddBatch(b ecs.Batch, vals []int64, rels []RelArg) {\n%s\tx.m.AddBatch(b, %s, x.env.rels(x.cs, rels)...)\n}\n", recv, vars, addrs)
	p("%s AddBatchFn(b ecs.Batch, fn func(ecs.Entity, []unsafe.Pointer), rels []RelArg) {\n\tif fn == nil {\n\t\tx.m.AddBatchFn(b, nil, x.env.rels(x.cs, rels)...)\n\t\treturn\n\t}\n\tx.m.AddBatchFn(b, func(e ecs.Entity, %s) { fn(e, []unsafe.Pointer{%s}) }, x.env.rels(x.cs, rels)...)\n}\n", recv, ptrArgs, ptrList)
	p("%s Remove(e ecs.Entity) { x.m.Remove(e) }\n", recv)
	p("%s RemoveBatch(b ecs.Batch, fn func(ecs.Entity)) { x.m.RemoveBatch(b, fn) }\n", recv)
	p("%s GetRelation(e ecs.Entity, c ct.Comp) ecs.Entity { return x.m.GetRelation(e, pos(x.cs, c)) }\n", recv)
	p("%s GetRelationUnchecked(e ecs.Entity, c ct.Comp) ecs.Entity { return x.m.GetRelationUnchecked(e, pos(x.cs, c)) }\n", recv)
	p("%s SetRelations(e ecs.Entity, rels []RelArg) { x.m.SetRelations(e, x.env.rels(x.cs, rels)...) }\n", recv)
	p("%s SetRelationsBatch(b ecs.Batch, fn func(ecs.Entity), rels []RelArg) { x.m.SetRelationsBatch(b, fn, x.env.rels(x.cs, rels)...) }\n\n", recv)
}

func genMapS() {
	p(`// ---- Map (single component)

type mapSW[A any] struct {
	env *Env
	m   *ecs.Map[A]
	cs  []ct.Comp
}

func newMapSW[A any](env *Env, cs []ct.Comp) Mapper {
	m := ecs.NewMap[A](env.W)
	if env.ViaNew() {
		m = (*ecs.Map[A])(nil).New(env.W)
	}
	return &mapSW[A]{env: env, m: m, cs: cs}
}

func targets(rels []RelArg) []ecs.Entity {
	if len(rels) == 0 {
		return nil
	}
	out := make([]ecs.Entity, len(rels))
	for i, r := range rels {
		out[i] = r.Target
	}
	return out
}

func (x *mapSW[A]) Comps() []ct.Comp { return x.cs }
func (x *mapSW[A]) NewEntity(vals []int64, rels []RelArg) ecs.Entity {
	var v0 A
	ct.Write(x.cs[0], unsafe.Pointer(&v0), vals[0])
	return x.m.NewEntity(&v0, targets(rels)...)
}
func (x *mapSW[A]) NewEntityFn(fn func([]unsafe.Pointer), rels []RelArg) ecs.Entity {
	if fn == nil {
		return x.m.NewEntityFn(nil, targets(rels)...)
	}
	return x.m.NewEntityFn(func(p0 *A) { fn([]unsafe.Pointer{unsafe.Pointer(p0)}) }, targets(rels)...)
}
func (x *mapSW[A]) NewBatch(n int, vals []int64, rels []RelArg) {
	var v0 A
	ct.Write(x.cs[0], unsafe.Pointer(&v0), vals[0])
	x.m.NewBatch(n, &v0, targets(rels)...)
}
func (x *mapSW[A]) NewBatchFn(n int, fn func(ecs.Entity, []unsafe.Pointer), rels []RelArg) {
	if fn == nil {
		x.m.NewBatchFn(n, nil, targets(rels)...)
		return
	}
	x.m.NewBatchFn(n, func(e ecs.Entity, p0 *A) { fn(e, []unsafe.Pointer{unsafe.Pointer(p0)}) }, targets(rels)...)
}
func (x *mapSW[A]) Get(e ecs.Entity) []unsafe.Pointer { return []unsafe.Pointer{unsafe.Pointer(x.m.Get(e))} }
func (x *mapSW[A]) GetUnchecked(e ecs.Entity) []unsafe.Pointer {
	return []unsafe.Pointer{unsafe.Pointer(x.m.GetUnchecked(e))}
}
func (x *mapSW[A]) HasAll(e ecs.Entity) bool { return x.m.Has(e) }
func (x *mapSW[A]) Add(e ecs.Entity, vals []int64, rels []RelArg) {
	var v0 A
	ct.Write(x.cs[0], unsafe.Pointer(&v0), vals[0])
	x.m.Add(e, &v0, targets(rels)...)
}
func (x *mapSW[A]) AddFn(e ecs.Entity, fn func([]unsafe.Pointer), rels []RelArg) {
	if fn == nil {
		x.m.AddFn(e, nil, targets(rels)...)
		return
	}
	x.m.AddFn(e, func(p0 *A) { fn([]unsafe.Pointer{unsafe.Pointer(p0)}) }, targets(rels)...)
}
func (x *mapSW[A]) Set(e ecs.Entity, vals []int64) {
	var v0 A
	ct.Write(x.cs[0], unsafe.Pointer(&v0), vals[0])
	x.m.Set(e, &v0)
}
func (x *mapSW[A]) AddBatch(b ecs.Batch, vals []int64, rels []RelArg) {
	var v0 A
	ct.Write(x.cs[0], unsafe.Pointer(&v0), vals[0])
	x.m.AddBatch(b, &v0, targets(rels)...)
}
func (x *mapSW[A]) AddBatchFn(b ecs.Batch, fn func(ecs.Entity, []unsafe.Pointer), rels []RelArg) {
	if fn == nil {
		x.m.AddBatchFn(b, nil, targets(rels)...)
		return
	}
	x.m.AddBatchFn(b, func(e ecs.Entity, p0 *A) { fn(e, []unsafe.Pointer{unsafe.Pointer(p0)}) }, targets(rels)...)
}
func (x *mapSW[A]) Remove(e ecs.Entity)                                   { x.m.Remove(e) }
func (x *mapSW[A]) RemoveBatch(b ecs.Batch, fn func(ecs.Entity))          { x.m.RemoveBatch(b, fn) }
func (x *mapSW[A]) GetRelation(e ecs.Entity, _ ct.Comp) ecs.Entity          { return x.m.GetRelation(e) }
func (x *mapSW[A]) GetRelationUnchecked(e ecs.Entity, _ ct.Comp) ecs.Entity { return x.m.GetRelationUnchecked(e) }
func (x *mapSW[A]) SetRelations(e ecs.Entity, rels []RelArg)              { x.m.SetRelation(e, rels[0].Target) }
func (x *mapSW[A]) SetRelationsBatch(b ecs.Batch, fn func(ecs.Entity), rels []RelArg) {
	x.m.SetRelationBatch(b, rels[0].Target, fn)
}

`)
}

func genFilter(n int) {
	T, TA := tp(n), tpAny(n)
	br, brA := "", ""
	if n > 0 {
		br, brA = "["+T+"]", "["+TA+"]"
	}
	fn := fmt.Sprintf("filter%dW", n)
	qn := fmt.Sprintf("query%dW", n)
	p("// ---- Filter%d / Query%d\n\ntype %s%s struct {\n\tenv *Env\n\tf *ecs.Filter%d%s\n\tcs []ct.Comp\n\tall []ct.Comp\n}\n\n", n, n, fn, brA, n, br)
	p("func new%s%s(env *Env, cs []ct.Comp) Filter {\n\tf := ecs.NewFilter%d%s(env.W)\n\tif env.ViaNew() {\n\t\tf = (*ecs.Filter%d%s)(nil).New(env.W)\n\t}\n\treturn &%s%s{env: env, f: f, cs: cs, all: append([]ct.Comp{}, cs...)}\n}\n\n", strings.Title(fn), brA, n, br, n, br, fn, br)
	recv := fmt.Sprintf("func (x *%s%s)", fn, br)
	p("%s Comps() []ct.Comp { return x.cs }\n", recv)
	p("%s With(cs ...ct.Comp) { Spread(cs, func(s []ecs.Comp) { x.f.With(s...) }); x.all = append(x.all, cs...) }\n", recv)
	p("%s Without(cs ...ct.Comp) { Spread(cs, func(s []ecs.Comp) { x.f.Without(s...) }) }\n", recv)
	p("%s Exclusive() { x.f.Exclusive() }\n", recv)
	p("%s Relations(rels []RelArg) { x.f.Relations(x.env.rels(x.all, rels)...) }\n", recv)
	p("%s Register() { x.f.Register() }\n", recv)
	p("%s Unregister() { x.f.Unregister() }\n", recv)
	p("%s Batch(rels []RelArg) ecs.Batch { return x.f.Batch(x.env.rels(x.all, rels)...) }\n", recv)
	p("%s Query(rels []RelArg) Query {\n\treturn &%s%s{q: x.f.Query(x.env.rels(x.all, rels)...), all: x.cs}\n}\n\n", recv, qn, br)
	p("type %s%s struct {\n\tq ecs.Query%d%s\n\tall []ct.Comp\n}\n\n", qn, brA, n, br)
	qrecv := fmt.Sprintf("func (x *%s%s)", qn, br)
	p("%s Next() bool { return x.q.Next() }\n", qrecv)
	p("%s Entity() ecs.Entity { return x.q.Entity() }\n", qrecv)
	if n == 0 {
		p("%s Get() []unsafe.Pointer { return nil }\n", qrecv)
	} else {
		rets := rep(n, func(i int) string { return fmt.Sprintf("p%d", i) }, ", ")
		ptrList := rep(n, func(i int) string { return fmt.Sprintf("unsafe.Pointer(p%d)", i) }, ", ")
		p("%s Get() []unsafe.Pointer {\n\t%s := x.q.Get()\n\treturn []unsafe.Pointer{%s}\n}\n", qrecv, rets, ptrList)
	}
	if n == 0 {
		p("%s GetRelation(c ct.Comp) ecs.Entity { panic(\"Query0 has no GetRelation\") }\n", qrecv)
	} else {
		p("%s GetRelation(c ct.Comp) ecs.Entity { return x.q.GetRelation(pos(x.all, c)) }\n", qrecv)
	}
	p("%s Count() int { return x.q.Count() }\n", qrecv)
	p("%s EntityAt(i int) ecs.Entity { return x.q.EntityAt(i) }\n", qrecv)
	p("%s Close() { x.q.Close() }\n\n", qrecv)
}

func genExch(n int) {
	T, TA := tp(n), tpAny(n)
	ptrArgs := rep(n, func(i int) string { return fmt.Sprintf("p%d *%c", i, letters[i]) }, ", ")
	ptrList := rep(n, func(i int) string { return fmt.Sprintf("unsafe.Pointer(p%d)", i) }, ", ")
	vars := rep(n, func(i int) string {
		return fmt.Sprintf("\tvar v%d %c\n\tct.Write(x.cs[%d], unsafe.Pointer(&v%d), vals[%d])\n", i, letters[i], i, i, i)
	}, "")
	addrs := rep(n, func(i int) string { return fmt.Sprintf("&v%d", i) }, ", ")
	name := fmt.Sprintf("exch%dW", n)
	p("// ---- Exchange%d\n\ntype %s[%s] struct {\n\tenv *Env\n\tx *ecs.Exchange%d[%s]\n\tcs []ct.Comp\n\trm []ct.Comp\n}\n\n", n, name, TA, n, T)
	p("func new%s[%s](env *Env, cs, rm []ct.Comp) Exchanger {\n\tex := ecs.NewExchange%d[%s](env.W)\n\tif env.ViaNew() {\n\t\tex = (*ecs.Exchange%d[%s])(nil).New(env.W)\n\t}\n\t// Removes \"can be called multiple times in chains, or once with multiple arguments\": 2 components are\n\t// given in two chained calls, 3 or more in a chained call followed by a multi-argument call\n\tif len(rm) >= 2 {\n\t\tex = ex.Removes(compsOf(rm[:1])...)\n\t\tSpread(rm[1:], func(s []ecs.Comp) { ex = ex.Removes(s...) })\n\t} else if len(rm) == 1 {\n\t\tSpread(rm, func(s []ecs.Comp) { ex = ex.Removes(s...) })\n\t}\n\treturn &%s[%s]{env: env, x: ex, cs: cs, rm: rm}\n}\n\n", strings.Title(name), TA, n, T, n, T, name, T)
	recv := fmt.Sprintf("func (x *%s[%s])", name, T)
	p("%s Comps() []ct.Comp { return x.cs }\n", recv)
	p("%s Removes() []ct.Comp { return x.rm }\n", recv)
	for _, m := range []string{"Add", "Exchange"} {
		p("%s %s(e ecs.Entity, vals []int64, rels []RelArg) {\n%s\tx.x.%s(e, %s, x.env.rels(x.cs, rels)...)\n}\n", recv, m, vars, m, addrs)
		p("%s %sFn(e ecs.Entity, fn func([]unsafe.Pointer), rels []RelArg) {\n\tif fn == nil {\n\t\tx.x.%sFn(e, nil, x.env.rels(x.cs, rels)...)\n\t\treturn\n\t}\n\tx.x.%sFn(e, func(%s) { fn([]unsafe.Pointer{%s}) }, x.env.rels(x.cs, rels)...)\n}\n", recv, m, m, m, ptrArgs, ptrList)
		p("%s %sBatch(b ecs.Batch, vals []int64, rels []RelArg) {\n%s\tx.x.%sBatch(b, %s, x.env.rels(x.cs, rels)...)\n}\n", recv, m, vars, m, addrs)
		p("%s %sBatchFn(b ecs.Batch, fn func(ecs.Entity, []unsafe.Pointer), rels []RelArg) {\n\tif fn == nil {\n\t\tx.x.%sBatchFn(b, nil, x.env.rels(x.cs, rels)...)\n\t\treturn\n\t}\n\tx.x.%sBatchFn(b, func(e ecs.Entity, %s) { fn(e, []unsafe.Pointer{%s}) }, x.env.rels(x.cs, rels)...)\n}\n", recv, m, m, m, ptrArgs, ptrList)
	}
	p("%s Remove(e ecs.Entity) { x.x.Remove(e) }\n", recv)
	p("%s RemoveBatch(b ecs.Batch, fn func(ecs.Entity)) { x.x.RemoveBatch(b, fn) }\n\n", recv)
}

func genObs(n int) {
	T, TA := tp(n), tpAny(n)
	ptrArgs := rep(n, func(i int) string { return fmt.Sprintf("p%d *%c", i, letters[i]) }, ", ")
	ptrList := rep(n, func(i int) string { return fmt.Sprintf("unsafe.Pointer(p%d)", i) }, ", ")
	name := fmt.Sprintf("obs%dW", n)
	p("// ---- Observer%d\n\ntype %s[%s] struct {\n\tenv *Env\n\to *ecs.Observer%d[%s]\n\tcs []ct.Comp\n}\n\n", n, name, TA, n, T)
	p("func new%s[%s](env *Env, evt ecs.EventType, cs []ct.Comp) Observer {\n\to := ecs.Observe%d[%s](evt)\n\tif env.ViaNew() {\n\t\to = (*ecs.Observer%d[%s])(nil).New(evt)\n\t}\n\treturn &%s[%s]{env: env, o: o, cs: cs}\n}\n\n", strings.Title(name), TA, n, T, n, T, name, T)
	recv := fmt.Sprintf("func (x *%s[%s])", name, T)
	p("%s Comps() []ct.Comp { return x.cs }\n", recv)
	p("%s For(cs ...ct.Comp) { Spread(cs, func(s []ecs.Comp) { x.o.For(s...) }) }\n", recv)
	p("%s With(cs ...ct.Comp) { Spread(cs, func(s []ecs.Comp) { x.o.With(s...) }) }\n", recv)
	p("%s Without(cs ...ct.Comp) { Spread(cs, func(s []ecs.Comp) { x.o.Without(s...) }) }\n", recv)
	p("%s Exclusive() { x.o.Exclusive() }\n", recv)
	p("%s Do(fn func(ecs.Entity, []unsafe.Pointer)) {\n\tx.o.Do(func(e ecs.Entity, %s) { fn(e, []unsafe.Pointer{%s}) })\n}\n", recv, ptrArgs, ptrList)
	p("%s Register() { x.o.Register(x.env.W) }\n", recv)
	p("%s Unregister() { x.o.Unregister(x.env.W) }\n\n", recv)
}

// ---------------------------------------------------------------- tuples

var (
	base  = []ct.Comp{ct.P, ct.Q, ct.R1, ct.S, ct.Z, ct.L, ct.R2, ct.T7, ct.T8, ct.T9, ct.T10, ct.T11}
	first = []ct.Comp{ct.R1, ct.P, ct.Q, ct.S, ct.Z, ct.L, ct.T7, ct.T8, ct.T9, ct.T10, ct.T11, ct.R2}
	lastB = []ct.Comp{ct.Q, ct.P, ct.L, ct.S, ct.T9, ct.Z, ct.T7, ct.T8, ct.T10, ct.T11, ct.R1}
	// without relation components (arity 4-10): queries over archetypes that have no relation tables
	plain = []ct.Comp{ct.L, ct.P, ct.Z, ct.Q, ct.S, ct.T7, ct.T8, ct.T9, ct.T10, ct.T11}
	twoRel = []ct.Comp{ct.S, ct.R2, ct.P, ct.R1, ct.Z, ct.Q}
)

func arityTuples(maxN, minN int) [][]ct.Comp {
	var out [][]ct.Comp
	for n := minN; n <= maxN; n++ {
		if n == 0 {
			out = append(out, []ct.Comp{})
			continue
		}
		out = append(out, append([]ct.Comp{}, base[:n]...))
		out = append(out, append([]ct.Comp{}, first[:n]...))
		out = append(out, append(append([]ct.Comp{}, lastB[:n-1]...), ct.R2))
		if n >= 4 && n <= len(plain) {
			out = append(out, append([]ct.Comp{}, plain[:n]...))
		}
		if n == 5 || n == 6 {
			// two relation components at every arity (arities 2-4 and 7-12 have such tuples already)
			out = append(out, append([]ct.Comp{}, twoRel[:n]...))
		}
	}
	return out
}

func smallTuples() [][]ct.Comp {
	var out [][]ct.Comp
	for c := ct.Comp(0); c < ct.NumComps; c++ {
		out = append(out, []ct.Comp{c})
	}
	out = append(out, [][]ct.Comp{
		{ct.P, ct.Q}, {ct.Q, ct.P}, {ct.P, ct.R1}, {ct.R1, ct.P}, {ct.Q, ct.R1}, {ct.R1, ct.Q}, {ct.R1, ct.R2}, {ct.R2, ct.R1},
		{ct.P, ct.R2}, {ct.R2, ct.P}, {ct.Q, ct.R2}, {ct.P, ct.S}, {ct.S, ct.P}, {ct.S, ct.Z}, {ct.Z, ct.S}, {ct.P, ct.Z}, {ct.Q, ct.S}, {ct.P, ct.L}, {ct.L, ct.S},
		{ct.S, ct.R1}, {ct.S, ct.L}, {ct.Q, ct.Z}, {ct.Q, ct.L}, {ct.Z, ct.L}, {ct.L, ct.Z}, {ct.L, ct.P}, {ct.S, ct.Q}, {ct.P, ct.T9}, {ct.Q, ct.T9}, {ct.R1, ct.T9}, {ct.R2, ct.S}, {ct.L, ct.R2},
		{ct.P, ct.Q, ct.R1}, {ct.P, ct.R1, ct.R2}, {ct.Q, ct.R1, ct.R2}, {ct.P, ct.Q, ct.S}, {ct.P, ct.Q, ct.R2}, {ct.S, ct.Z, ct.L}, {ct.P, ct.Q, ct.T9},
		{ct.P, ct.Q, ct.R1, ct.R2},
	}...)
	return out
}

func dedup(ts [][]ct.Comp) [][]ct.Comp {
	seen := map[string]bool{}
	var out [][]ct.Comp
	for _, t := range ts {
		k := key(t)
		if seen[k] {
			continue
		}
		seen[k] = true
		out = append(out, t)
	}
	sort.SliceStable(out, func(i, j int) bool { return len(out[i]) < len(out[j]) })
	return out
}

func key(cs []ct.Comp) string {
	b := make([]byte, len(cs))
	for i, c := range cs {
		b[i] = 'a' + byte(c)
	}
	return string(b)
}

func typeList(cs []ct.Comp) string {
	s := make([]string, len(cs))
	for i, c := range cs {
		s[i] = "ct." + ct.TypeNames[c]
	}
	return strings.Join(s, ", ")
}

func compList(ts [][]ct.Comp) string {
	var sb strings.Builder
	for _, t := range ts {
		sb.WriteString("\t{")
		for i, c := range t {
			if i > 0 {
				sb.WriteString(", ")
			}
			sb.WriteString("ct." + ct.Names[c])
		}
		sb.WriteString("},\n")
	}
	return sb.String()
}

func main() {
	p("// Code generated by verif/mc/cmd/gen; DO NOT EDIT.\n\npackage api\n\nimport (\n\t\"unsafe\"\n\n\t\"github.com/mlange-42/ark/ecs\"\n\n\t\"verif/mc/ct\"\n)\n\n")
	for n := 1; n <= maxMap; n++ {
		genMap(n)
	}
	genMapS()
	for n := 0; n <= maxFilt; n++ {
		genFilter(n)
	}
	for n := 1; n <= maxExch; n++ {
		genExch(n)
	}
	for n := 1; n <= maxObs; n++ {
		genObs(n)
	}

	small := smallTuples()
	mapT := dedup(append(arityTuples(maxMap, 1), small...))
	filtT := dedup(append(arityTuples(maxFilt, 0), small...))
	exchT := dedup(append(arityTuples(maxExch, 1), small...))
	obsT := dedup(append(arityTuples(maxObs, 1), small...))

	// lookups
	p("// MapTuples lists the instantiated MapN tuples.\nvar MapTuples = [][]ct.Comp{\n%s}\n\n", compList(mapT))
	p("// TypedMapper returns a MapN based Mapper for the ordered tuple, or nil if not instantiated.\nfunc TypedMapper(env *Env, cs []ct.Comp) Mapper {\n\tswitch Key(cs) {\n")
	for _, t := range mapT {
		p("\tcase %q:\n\t\treturn newMap%dW[%s](env, cs)\n", key(t), len(t), typeList(t))
	}
	p("\t}\n\treturn nil\n}\n\n")

	p("// SingleMapper returns a Map[T] based Mapper.\nfunc SingleMapper(env *Env, c ct.Comp) Mapper {\n\tcs := []ct.Comp{c}\n\tswitch c {\n")
	for c := ct.Comp(0); c < ct.NumComps; c++ {
		p("\tcase ct.%s:\n\t\treturn newMapSW[ct.%s](env, cs)\n", ct.Names[c], ct.TypeNames[c])
	}
	p("\t}\n\treturn nil\n}\n\n")

	p("// FilterTuples lists the instantiated FilterN tuples.\nvar FilterTuples = [][]ct.Comp{\n%s}\n\n", compList(filtT))
	p("// TypedFilter returns a FilterN based Filter for the ordered tuple, or nil if not instantiated.\nfunc TypedFilter(env *Env, cs []ct.Comp) Filter {\n\tswitch Key(cs) {\n")
	for _, t := range filtT {
		if len(t) == 0 {
			p("\tcase \"\":\n\t\treturn newFilter0W(env, cs)\n")
			continue
		}
		if len(t) > maxFilt {
			continue
		}
		p("\tcase %q:\n\t\treturn newFilter%dW[%s](env, cs)\n", key(t), len(t), typeList(t))
	}
	p("\t}\n\treturn nil\n}\n\n")

	p("// ExchangeTuples lists the instantiated ExchangeN tuples.\nvar ExchangeTuples = [][]ct.Comp{\n%s}\n\n", compList(exchT))
	p("// TypedExchanger returns an ExchangeN based Exchanger, or nil if not instantiated.\nfunc TypedExchanger(env *Env, cs, rm []ct.Comp) Exchanger {\n\tswitch Key(cs) {\n")
	for _, t := range exchT {
		p("\tcase %q:\n\t\treturn newExch%dW[%s](env, cs, rm)\n", key(t), len(t), typeList(t))
	}
	p("\t}\n\treturn nil\n}\n\n")

	p("// ObserverTuples lists the instantiated ObserverN tuples.\nvar ObserverTuples = [][]ct.Comp{\n%s}\n\n", compList(obsT))
	p("// TypedObserver returns an ObserverN based Observer, or nil if not instantiated.\nfunc TypedObserver(env *Env, evt ecs.EventType, cs []ct.Comp) Observer {\n\tswitch Key(cs) {\n")
	for _, t := range obsT {
		if len(t) > maxObs {
			continue
		}
		p("\tcase %q:\n\t\treturn newObs%dW[%s](env, evt, cs)\n", key(t), len(t), typeList(t))
	}
	p("\t}\n\treturn nil\n}\n")

	os.Stdout.WriteString(out.String())
}
