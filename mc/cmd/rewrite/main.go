// Command rewrite generates a `go build -overlay` file that replaces parts of package
// github.com/mlange-42/ark/ecs by instrumented copies, produced from the sources as they
// currently are in /repo (or in a base overlay, for mutation testing). Nothing is written to /repo.
//
//	rewrite -out DIR [-base ov.json] MODE...
//
// Modes:
//
//	sync      import "sync"  -> github.com/mlange-42/ark/vsync   (controlled scheduler)
//	time      import "time"  -> github.com/mlange-42/ark/vtime   (virtual clock)
//	maprange  for k, v := range <map> -> iteration over vmap.Keys(m) (explorer-chosen order)
//	gc        vgc.Point() at the entry of every function of table.go, column.go, util.go
//
// The seam packages are mapped into the ark module as virtual directories /repo/vsync etc.
package main

import (
	"bytes"
	"encoding/json"
	"flag"
	"fmt"
	"go/ast"
	"go/build"
	"go/format"
	"go/importer"
	"go/parser"
	"go/token"
	"go/types"
	"os"
	"path/filepath"
	"sort"
	"strconv"
	"strings"
)

const repoEcs = "/repo/ecs"

var seams = func() string {
	if r := os.Getenv("VERIF_ROOT"); r != "" {
		return r + "/mc/seams"
	}
	return "/verif/mc/seams"
}()

type overlay struct {
	Replace map[string]string
}

func main() {
	out := flag.String("out", "", "output directory")
	base := flag.String("base", "", "base overlay (json)")
	flag.Parse()
	modes := flag.Args()
	if *out == "" || len(modes) == 0 {
		fmt.Fprintln(os.Stderr, "usage: rewrite -out DIR [-base ov.json] MODE...")
		os.Exit(2)
	}
	if *base == "" {
		*base = os.Getenv("VERIF_OVERLAY")
	}
	baseOv := overlay{Replace: map[string]string{}}
	if *base != "" {
		b, err := os.ReadFile(*base)
		if err == nil {
			json.Unmarshal(b, &baseOv)
		}
	}
	os.MkdirAll(*out, 0o755)
	result := overlay{Replace: map[string]string{}}
	for k, v := range baseOv.Replace {
		result.Replace[k] = v
	}
	// read sources (through the base overlay)
	ctx := build.Default
	pkg, err := ctx.ImportDir(repoEcs, 0)
	if err != nil {
		fatal(err)
	}
	names := append([]string{}, pkg.GoFiles...)
	names = append(names, pkg.IgnoredGoFiles...) // files excluded by build tags still need rewriting
	sort.Strings(names)
	fset := token.NewFileSet()
	files := map[string]*ast.File{}
	src := map[string][]byte{}
	var typed []*ast.File
	active := map[string]bool{}
	for _, n := range pkg.GoFiles {
		active[n] = true
	}
	for _, n := range names {
		if strings.HasSuffix(n, "_test.go") {
			continue
		}
		p := filepath.Join(repoEcs, n)
		rp := p
		if r, ok := baseOv.Replace[p]; ok {
			rp = r
		}
		b, err := os.ReadFile(rp)
		if err != nil {
			fatal(err)
		}
		af, err := parser.ParseFile(fset, p, b, parser.ParseComments)
		if err != nil {
			fatal(err)
		}
		files[n] = af
		src[n] = b
		if active[n] {
			typed = append(typed, af)
		}
	}
	changed := map[string]bool{}
	report := map[string]any{}
	for _, m := range modes {
		switch m {
		case "sync":
			n := rewriteImport(files, changed, "sync", "github.com/mlange-42/ark/vsync", "sync")
			report["sync_files"] = n
			addSeam(&result, "vsync")
		case "time":
			n := rewriteImport(files, changed, "time", "github.com/mlange-42/ark/vtime", "time")
			report["time_files"] = n
			addSeam(&result, "vtime")
		case "maprange":
			n, where := rewriteMapRanges(fset, files, typed, changed)
			report["map_ranges"] = n
			report["map_range_sites"] = where
			addSeam(&result, "vmap")
		case "gc":
			n := insertGCPoints(files, changed)
			report["gc_points"] = n
			addSeam(&result, "vgc")
		default:
			fatal(fmt.Errorf("unknown mode %s", m))
		}
	}
	for n := range changed {
		var buf bytes.Buffer
		if err := format.Node(&buf, fset, files[n]); err != nil {
			fatal(fmt.Errorf("printing %s: %v", n, err))
		}
		dst := filepath.Join(*out, n)
		if err := os.WriteFile(dst, buf.Bytes(), 0o644); err != nil {
			fatal(err)
		}
		result.Replace[filepath.Join(repoEcs, n)] = dst
	}
	b, _ := json.MarshalIndent(result, "", " ")
	if err := os.WriteFile(filepath.Join(*out, "ov.json"), b, 0o644); err != nil {
		fatal(err)
	}
	rb, _ := json.Marshal(report)
	fmt.Println(string(rb))
}

func fatal(err error) {
	fmt.Fprintln(os.Stderr, "rewrite:", err)
	os.Exit(1)
}

func addSeam(ov *overlay, name string) {
	dir := filepath.Join(seams, name)
	ents, err := os.ReadDir(dir)
	if err != nil {
		fatal(err)
	}
	for _, e := range ents {
		if strings.HasSuffix(e.Name(), ".go") {
			ov.Replace[filepath.Join("/repo", name, e.Name())] = filepath.Join(dir, e.Name())
		}
	}
}

// rewriteImport replaces an import path in every file that imports it.
func rewriteImport(files map[string]*ast.File, changed map[string]bool, from, to, name string) int {
	n := 0
	for fn, f := range files {
		for _, imp := range f.Imports {
			if p, _ := strconv.Unquote(imp.Path.Value); p == from {
				imp.Path.Value = strconv.Quote(to)
				if imp.Name == nil {
					imp.Name = ast.NewIdent(name)
				}
				changed[fn] = true
				n++
			}
		}
	}
	return n
}

// rewriteMapRanges turns every range over a map-typed expression into an iteration over
// vmap.Keys(m), whose order the explorer chooses.
func rewriteMapRanges(fset *token.FileSet, files map[string]*ast.File, typed []*ast.File, changed map[string]bool) (int, []string) {
	info := &types.Info{Types: map[ast.Expr]types.TypeAndValue{}}
	conf := types.Config{Importer: importer.ForCompiler(fset, "source", nil), Error: func(error) {}}
	cwd, _ := os.Getwd()
	os.Chdir(repoEcs)
	conf.Check("github.com/mlange-42/ark/ecs", fset, typed, info)
	os.Chdir(cwd)
	n := 0
	var where []string
	counter := 0
	for fn, f := range files {
		touched := false
		ast.Inspect(f, func(nd ast.Node) bool {
			rs, ok := nd.(*ast.RangeStmt)
			if !ok {
				return true
			}
			tv, ok := info.Types[rs.X]
			if !ok {
				return true
			}
			if _, ok := tv.Type.Underlying().(*types.Map); !ok {
				return true
			}
			// for K, V := range M { body }   =>
			// __mN := M; for _, __kN := range vmap.Keys(__mN, "site") { V, __ok := __mN[__kN]; if !__ok { continue }; K := __kN; body }
			counter++
			site := fmt.Sprintf("%s:%d", fn, fset.Position(rs.Pos()).Line)
			kName := fmt.Sprintf("__k%d", counter)
			var pre []ast.Stmt
			mExpr := rs.X
			okName := fmt.Sprintf("__ok%d", counter)
			valIdent := ast.NewIdent("_")
			if rs.Value != nil {
				if id, ok := rs.Value.(*ast.Ident); ok {
					valIdent = id
				}
			}
			pre = append(pre, &ast.AssignStmt{
				Lhs: []ast.Expr{valIdent, ast.NewIdent(okName)}, Tok: token.DEFINE,
				Rhs: []ast.Expr{&ast.IndexExpr{X: mExpr, Index: ast.NewIdent(kName)}},
			})
			pre = append(pre, &ast.IfStmt{Cond: &ast.UnaryExpr{Op: token.NOT, X: ast.NewIdent(okName)},
				Body: &ast.BlockStmt{List: []ast.Stmt{&ast.BranchStmt{Tok: token.CONTINUE}}}})
			if valIdent.Name != "_" {
				pre = append(pre, &ast.AssignStmt{Lhs: []ast.Expr{ast.NewIdent("_")}, Tok: token.ASSIGN, Rhs: []ast.Expr{ast.NewIdent(valIdent.Name)}})
			}
			if rs.Key != nil {
				if id, ok := rs.Key.(*ast.Ident); ok && id.Name != "_" {
					pre = append(pre, &ast.AssignStmt{Lhs: []ast.Expr{ast.NewIdent(id.Name)}, Tok: token.DEFINE, Rhs: []ast.Expr{ast.NewIdent(kName)}})
					pre = append(pre, &ast.AssignStmt{Lhs: []ast.Expr{ast.NewIdent("_")}, Tok: token.ASSIGN, Rhs: []ast.Expr{ast.NewIdent(id.Name)}})
				}
			}
			rs.Body.List = append(pre, rs.Body.List...)
			rs.Key = ast.NewIdent("_")
			rs.Value = ast.NewIdent(kName)
			rs.Tok = token.DEFINE
			rs.X = &ast.CallExpr{Fun: &ast.SelectorExpr{X: ast.NewIdent("vmap"), Sel: ast.NewIdent("Keys")},
				Args: []ast.Expr{mExpr, &ast.BasicLit{Kind: token.STRING, Value: strconv.Quote(site)}}}
			n++
			where = append(where, site)
			touched = true
			return true
		})
		if touched {
			addImport(f, "github.com/mlange-42/ark/vmap", "vmap")
			changed[fn] = true
		}
	}
	sort.Strings(where)
	return n, where
}

func addImport(f *ast.File, path, name string) {
	for _, imp := range f.Imports {
		if p, _ := strconv.Unquote(imp.Path.Value); p == path {
			return
		}
	}
	spec := &ast.ImportSpec{Name: ast.NewIdent(name), Path: &ast.BasicLit{Kind: token.STRING, Value: strconv.Quote(path)}}
	decl := &ast.GenDecl{Tok: token.IMPORT, Specs: []ast.Spec{spec}}
	// imports must come first
	f.Decls = append([]ast.Decl{decl}, f.Decls...)
	f.Imports = append(f.Imports, spec)
}

// insertGCPoints inserts vgc.Point("<func>") at the entry of every function in the
// memory-moving files.
func insertGCPoints(files map[string]*ast.File, changed map[string]bool) int {
	n := 0
	for _, fn := range []string{"table.go", "column.go", "util.go"} {
		f, ok := files[fn]
		if !ok {
			continue
		}
		for _, d := range f.Decls {
			fd, ok := d.(*ast.FuncDecl)
			if !ok || fd.Body == nil {
				continue
			}
			name := fd.Name.Name
			if name == "capPow2" || name == "isTrivial" || name == "isRelation" {
				continue
			}
			call := &ast.ExprStmt{X: &ast.CallExpr{Fun: &ast.SelectorExpr{X: ast.NewIdent("vgc"), Sel: ast.NewIdent("Point")},
				Args: []ast.Expr{&ast.BasicLit{Kind: token.STRING, Value: strconv.Quote(fn + ":" + name)}}}}
			fd.Body.List = append([]ast.Stmt{call}, fd.Body.List...)
			n++
		}
		addImport(f, "github.com/mlange-42/ark/vgc", "vgc")
		changed[fn] = true
	}
	return n
}
