#!/usr/bin/env python3
"""Writes seeded/INDEX.md from the meta.json files (no checks are run; `detected_by` was recorded when each
change was run through tools/mutov.sh)."""
import json, os, re
root = os.path.join(os.path.dirname(os.path.abspath(__file__)), '..', 'seeded')
rows = []
for d in sorted(os.listdir(root)):
    mp = os.path.join(root, d, 'meta.json')
    if d == 'benign' or not os.path.exists(mp):
        continue
    m = json.load(open(mp))
    det = m.get('detected_by') or []
    rnd = re.search(r"-r(\d+)-", d)
    rows.append((d, m.get('property', '?'), 'round ' + (rnd.group(1) if rnd else '1'), ', '.join(det) if det else '**not detected**',
                 ', '.join(m.get('not_detected_by', [])), (m.get('summary') or '').replace('|', '/').replace('\n', ' ')[:150]))
with open(os.path.join(root, 'INDEX.md'), 'w') as f:
    f.write('# Seeded property-breaking changes\n\n')
    f.write(f'{len(rows)} changes, {sum(1 for r in rows if "not detected" not in r[3])} detected by the quick tier. '
            'Run one with `tools/mutov.sh seeded/<id>/patch.diff quick <check>` (overlay build, /repo untouched).\n\n')
    f.write('| id | property named by its author | round | detected by (quick) | tried, not detected by | change |\n|---|---|---|---|---|---|\n')
    for r in rows:
        f.write('| ' + ' | '.join(r) + ' |\n')
print(len(rows))
