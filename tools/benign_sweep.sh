#!/bin/bash
# usage: benign_sweep.sh [tier] [Cxx ...]   (default: quick, all 20 checks)
# Runs the checks against every property-preserving change in seeded/benign (overlay build, /repo untouched)
# and writes seeded/benign/RESULTS.md. Any VIOLATION here is a false alarm of the harness.
R="${VERIF_ROOT:-/verif}"
tier="${1:-quick}"; shift
checks="$*"
[ -z "$checks" ] && checks="C01 C02 C03 C04 C05 C06 C07 C08 C09 C10 C11 C12 C13 C14 C15 C16 C17 C18 C19 C20"
out="$R/seeded/benign/RESULTS.md"
tmp=$(mktemp)
for d in "$R"/seeded/benign/B*/; do
  b=$(basename "$d")
  "$R/tools/mutov.sh" "$d/patch.diff" "$tier" $checks 2>&1 | grep -E "^RESULT|PATCH DOES NOT|BUILD FAILED" | sed "s#patch=[^ ]*#change=$b#" >> "$tmp"
done
{
  echo "# Checks run against the property-preserving changes in this directory ($tier tier)"
  echo
  echo "Harness commit: $(git -C "$R" rev-parse --short HEAD 2>/dev/null), ark commit: $(git -C /repo rev-parse --short HEAD)"
  echo
  echo "| change | checks run | alarms |"
  echo "|---|---|---|"
  for d in "$R"/seeded/benign/B*/; do
    b=$(basename "$d")
    n=$(grep -c "change=$b " "$tmp")
    bad=$(grep "change=$b " "$tmp" | grep -v "exit=0 violations=0" | sed 's/.*check=\([A-Z0-9]*\).*/\1/' | tr '\n' ' ')
    echo "| $b | $n | ${bad:-none} |"
  done
  echo
  echo '```'
  cat "$tmp" | cut -c1-200
  echo '```'
} > "$out"
rm -f "$tmp"
grep -c "none" "$out"
