#!/usr/bin/env python3
"""Regenerates /verif/MANIFEST.json from the table below."""
import json
props = [json.loads(l) for l in open('/verif/properties.jsonl')]
ids = [p['id'] for p in props]

E1 = "E1-history-explorer"
# id -> (engine, technique, level text, level note, design ref)
claimed = {}
def claim(i, engine, technique, text, note, ref):
    claimed[i] = dict(engine=engine, technique=technique, text=text, note=note, ref=ref)

exec(open('/verif/tools/claims.py').read())

m = {
 "version": 1,
 "setup_cmd": "/verif/setup.sh",
 "hooks": {
  "guard": "verif-overlay",
  "enable": "no source hooks are committed to /repo; checks that need seams (virtual clock, scheduler, map order, GC points) generate instrumented copies of the current /repo sources under /verif/.work and build them with `go build -overlay`",
  "baseline_off_cmd": "cd /repo && GOFLAGS=-mod=mod GOPROXY=off go test -vet=off -count=1 ./...",
  "source_commits": [],
  "add_only": True
 },
 "engines": [
  {"name": E1, "path": "/verif/mc/engine", "serves_properties": sorted(k for k,v in claimed.items() if v['engine']==E1),
   "kind_free_text": "stateless bounded exhaustive exploration of operation histories on the real ecs.World (DFS by replay, 16 workers) against a Go reference model"},
 ],
 "checks": [],
 "not_applicable": [],
 "notes": "All checks: /verif/run.sh <id> <tier> rebuilds the harness against the current /repo tree. Known findings: /verif/known_findings.jsonl. Replays: /verif/replays."
}
other = sorted(set(v['engine'] for v in claimed.values()) - {E1})
for e in other:
    m["engines"].append({"name": e, "path": "/verif/mc", "serves_properties": sorted(k for k,v in claimed.items() if v['engine']==e), "kind_free_text": ENGINES.get(e, e)})
for i in ids:
    if i in claimed:
        c = claimed[i]
        m["checks"].append({
          "property_id": i,
          "quick_cmd": f"/verif/run.sh {i} quick",
          "thorough_cmd": f"/verif/run.sh {i} thorough",
          "evidence_file": f"/verif/evidence/{i}.json",
          "replay_cmd_template": f"/verif/run.sh {i} quick --replay {{path}}",
          "engine": c['engine'],
          "level_claimed": {"category": "model_checking", "text": c['text'], "design_ref": c['ref']},
          "level_note": c['note'],
          "technique": c['technique'],
        })
    else:
        m["not_applicable"].append({"property_id": i, "reason": "check not built yet in this session (work in progress, planned in DESIGN.md section 3)"})
json.dump(m, open('/verif/MANIFEST.json','w'), indent=1)
print("claimed:", sorted(claimed))
