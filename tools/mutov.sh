#!/bin/bash
# usage: mutov.sh <patch.diff> <tier> <Cxx> [Cyy ...]
# Runs checks against a patched copy of /repo/ecs through `go build -overlay` (/repo itself is untouched).
patch="$1"; tier="$2"; shift; shift
export GOFLAGS=-mod=mod GOPROXY=off
work=$(mktemp -d /tmp/mutov.XXXXXX)
trap 'rm -rf "$work"' EXIT
mkdir -p "$work/src" && cp -r /repo/ecs "$work/src/ecs"
if ! patch -s -p1 -d "$work/src" < "$patch"; then echo "PATCH DOES NOT APPLY: $patch"; exit 2; fi
python3 - "$work" <<'PY'
import os,sys,json,filecmp
work=sys.argv[1]
rep={}
for root,_,files in os.walk(os.path.join(work,'src','ecs')):
    for f in files:
        p=os.path.join(root,f)
        rel=os.path.relpath(p,os.path.join(work,'src'))
        orig=os.path.join('/repo',rel)
        if not os.path.exists(orig) or not filecmp.cmp(p,orig,shallow=False):
            rep[orig]=p
json.dump({"Replace":rep},open(os.path.join(work,'ov.json'),'w'))
print("overlay files:",[os.path.relpath(k,'/repo') for k in rep])
PY
export VERIF_OVERLAY="$work/ov.json"
export VERIF_EVIDENCE_DIR="$work/evidence"
bin="$work/check"
cd "${VERIF_ROOT:-/verif}/mc" && go build -overlay "$VERIF_OVERLAY" -o "$bin" ./cmd/check || { echo "BUILD FAILED"; exit 2; }
for id in "$@"; do
  t0=$(date +%s)
  out=$("$bin" "$id" --tier "$tier" $MUTOV_ARGS 2>&1); code=$?; [ -n "$MUTOV_VERBOSE" ] && echo "$out" | tail -${MUTOV_VERBOSE}
  t1=$(date +%s)
  nv=$(echo "$out" | grep -c '^VIOLATION')
  first=$(echo "$out" | grep -A1 '^VIOLATION' | sed -n 2p | cut -c1-300)
  echo "RESULT patch=$patch check=$id exit=$code violations=$nv time=$((t1-t0))s :: $first"
done
