#!/bin/bash
# usage: confirm_mutant.sh <dir with patch.diff demo_test.go meta.json> <scratch worktree>
# Confirms in the scratch worktree (at /repo's HEAD): patch applies, builds, existing suite passes with it,
# demo fails with the patch and passes without it. Prints CONFIRMED or the reason.
d="$1"; wt="$2"
export GOFLAGS=-mod=mod GOPROXY=off
cd "$wt" || exit 2
git checkout -q --detach "$(git -C /repo rev-parse HEAD)" 2>/dev/null
git checkout -q -- . ; rm -f ecs/zz_demo_*_test.go
git apply "$d/patch.diff" || { echo "NOT-CONFIRMED $d: patch does not apply to HEAD"; exit 1; }
go build ./... || { echo "NOT-CONFIRMED $d: does not build"; git checkout -q -- .; exit 1; }
if ! go test -vet=off -count=1 ./... >/tmp/confirm.$$.log 2>&1; then echo "NOT-CONFIRMED $d: existing suite fails with the patch"; tail -5 /tmp/confirm.$$.log; git checkout -q -- .; exit 1; fi
cp "$d/demo_test.go" ecs/zz_demo_1_test.go
if go test -vet=off -count=1 -run 'Demo|Seed|Mutant|ZZ|Zz' ./ecs >/tmp/confirm.$$.log 2>&1; then
  # maybe the test name does not match the pattern: run everything
  if go test -vet=off -count=1 ./ecs >/tmp/confirm.$$.log 2>&1; then echo "NOT-CONFIRMED $d: demo passes WITH the patch"; git checkout -q -- .; rm -f ecs/zz_demo_1_test.go; exit 1; fi
fi
git checkout -q -- .
if ! go test -vet=off -count=1 ./ecs >/tmp/confirm.$$.log 2>&1; then echo "NOT-CONFIRMED $d: demo fails WITHOUT the patch"; tail -5 /tmp/confirm.$$.log; rm -f ecs/zz_demo_1_test.go; exit 1; fi
rm -f ecs/zz_demo_1_test.go /tmp/confirm.$$.log
echo "CONFIRMED $d"
