#!/bin/bash
# usage: mutest.sh <patch.diff> <tier> <Cxx> [Cyy ...]
# Applies the patch to /repo, runs the given checks, reverts. Prints one line per check.
patch="$1"; tier="$2"; shift; shift
cd /repo || exit 2
if ! git diff --quiet; then echo "REPO DIRTY, abort"; exit 2; fi
if ! git apply "$patch"; then echo "PATCH DOES NOT APPLY: $patch"; exit 2; fi
trap 'git -C /repo checkout -- . ; git -C /repo clean -fdq ecs' EXIT
for id in "$@"; do
  t0=$(date +%s)
  out=$(/verif/run.sh "$id" "$tier" 2>&1); code=$?
  t1=$(date +%s)
  nv=$(echo "$out" | grep -c '^VIOLATION')
  first=$(echo "$out" | grep -A1 '^VIOLATION' | sed -n 2p | cut -c1-260)
  echo "RESULT patch=$patch check=$id exit=$code violations=$nv time=$((t1-t0))s :: $first"
done
