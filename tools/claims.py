ENGINES = {}
NOTE = "Trusted base: the Go reference model (/verif/mc/model), the driver's abstract-op to API mapping, Go runtime. Bounds: histories up to the stated depth over the stated alphabet and configurations; nothing beyond is claimed."
claim("C04", E1, "explicit-state bounded exhaustive exploration of operation histories on the implementation, reference-model oracle",
      "Every history over the relation alphabet (<=5 entities, 2-3 targets, 1-2 relation components, single and batch removal of targets, Shrink, Reset) up to depth 4 (quick) / 5 (thorough) after 6 preludes is executed on the real World; after every history all entities' liveness, components, values and relation targets, a family of relation-filtered queries and all persistent (cached and uncached) filters are compared with the model; any panic of a valid call is a violation.",
      NOTE, "DESIGN.md 3/C04")
