ENGINES = {}
NOTE = "Trusted base: the Go reference model (/verif/mc/model), the driver's abstract-op to API mapping, Go runtime. Bounds: histories up to the stated depth over the stated alphabet and configurations; nothing beyond is claimed."
claim("C04", E1, "explicit-state bounded exhaustive exploration of operation histories on the implementation, reference-model oracle",
      "Every history over the relation alphabet (<=5 entities, 2-3 targets, 1-2 relation components, single and batch removal of targets, Shrink, Reset) up to depth 4 (quick) / 5 (thorough) after 6 preludes is executed on the real World; after every history all entities' liveness, components, values and relation targets, a family of relation-filtered queries and all persistent (cached and uncached) filters are compared with the model; any panic of a valid call is a violation.",
      NOTE, "DESIGN.md 3/C04")
T1 = "explicit-state bounded exhaustive exploration of operation histories on the implementation, reference-model oracle"
claim("C01", E1, T1,
      "Every history up to depth 4 (quick) / 5 (thorough) over five alphabets (plain moves via MapN, Map, ExchangeN and the ID-based API; pointer-bearing/zero-size/large components with uninitialised adds; relation moves; batch moves; Reset and Shrink interleaved), from 3 non-initial preludes, for capacities {1,2,8} and component-ID offsets {0,62,63,126,190,250}, is executed on the real World; after every history every entity's liveness, component set, every value (Unsafe.Get, Map.Get pointer identity, query Get) and relation target is compared with the model, so a change to any other entity is caught too.",
      NOTE, "DESIGN.md 3/C01")
claim("C02", E1, T1,
      "Every history up to depth 5 (quick) / 7 (thorough) over all creation and removal forms applied to every alive entity (so every recycle order of <=4 ids), with Reset, from the empty world and a prelude with a non-trivial free list, capacities {1,2}: handles pairwise distinct since the last Reset, Alive(h) of every handle ever issued, Stats().Entities.Used and the Filter0 count agree with creations minus removals.",
      NOTE, "DESIGN.md 3/C02")
claim("C03", E1, T1,
      "In every world state reachable by histories up to depth 3 (quick) / 4 (thorough) of the relation/batch alphabet from 3 preludes (tables emptied, freed by Shrink, recycled, targets dying, ids recycled) a family of ~270 filters (all with-sets over 4 components x none/one excluded/exclusive x relation constraints none/zero/#0/#1, in the filter and per query, typed Filter0-4 with With and UnsafeFilter) and persistent filters with dying targets are evaluated: exact multiset, once each, Count, EntityAt order, Get pointer identity with random access, values, GetRelation, unlocked afterwards. ID offsets {0,62} quick, all five thorough. Arities above 4 are covered by C14.",
      NOTE, "DESIGN.md 3/C03")
claim("C05", E1, T1,
      "Every history up to depth 4 (quick) / 5 (thorough) over the relation alphabet plus Register/Unregister of three filters (plain, fixed relation target, exclusive), queries opened/advanced/closed in two slots (so (un)registration happens while queries of the same and of other filters are open), Shrink and Reset; in every state every created filter is evaluated with and without per-query targets against the model; batch selection through batch callbacks; Stats().CachedFilters.",
      NOTE, "DESIGN.md 3/C05")
claim("C06", E1, T1,
      "Every history up to depth 3 (quick) / 5 (thorough) over all seven batch operations (through MapN, Map and ExchangeN; value, callback and nil-callback forms; cached and uncached batch filters; with per-batch relation targets; several source tables, destinations that already hold rows) mixed with single moves: callback exactly once per model-selected entity, values written through callback pointers are read back from that entity, resulting world equals the fold of the single-entity operation, everything else untouched.",
      NOTE, "DESIGN.md 3/C06")
claim("C15", E1, T1,
      "Every history up to depth 4 (quick) / 5 (thorough) over the relation and batch alphabets with Shrink() and repeated Shrink(0) as ordinary operations at every position (also with open queries and registered filters): the full model comparison (entities, values, relations, filter family, cached filters, open queries) holds after the call and after every later operation; after an unlocked unbounded Shrink every table satisfies Size <= Capacity <= max(initial, nextPow2(Size)) and free tables hold at most their initial capacity; repeated limited calls terminate.",
      NOTE + " Time-limited Shrink is exercised with limit 0 only; a virtual clock answer pattern is not enumerated.", "DESIGN.md 3/C15")
claim("C19", E1, T1,
      "Every history up to depth 4 (quick) / 5 (thorough) over the relation and batch alphabets with Stats() as an ordinary operation at every position: all stated invariants of World.Stats() (entity counts vs model, archetype and table sizes vs model population per component set, capacity and memory products, distinct component sets, filters/observers/locked) and equality of the incrementally updated statistics with those of a twin world replaying the history with a single final Stats() call.",
      NOTE, "DESIGN.md 3/C19")
