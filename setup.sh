#!/bin/sh
# Builds the harness and pre-builds the tagged / instrumented worker binaries (warms the Go build cache).
R="${VERIF_ROOT:-/verif}"
export GOFLAGS=-mod=mod GOPROXY=off
unset GOSUMDB
mkdir -p $R/.work/bin $R/evidence $R/replays
cd $R/mc || exit 1
go build -o $R/.work/bin/check ./cmd/check || exit 1
for tags in ark_tiny ark_debug ark_tiny,ark_debug; do
  go build -tags "$tags" -o "$R/.work/bin/check_$(echo $tags | tr , _)" ./cmd/check || exit 1
done
# instrumented builds (overlays generated from the current /repo sources)
go run ./cmd/rewrite -out $R/.work/ov/sync sync >/dev/null && go build -race -tags verif_sched -overlay $R/.work/ov/sync/ov.json -o $R/.work/bin/c13w ./c13w || exit 1
go run ./cmd/rewrite -out $R/.work/ov/maps maprange >/dev/null && go build -tags verif_maps -overlay $R/.work/ov/maps/ov.json -o $R/.work/bin/check_verif_maps ./cmd/check || exit 1
go run ./cmd/rewrite -out $R/.work/ov/gc gc >/dev/null && go build -tags verif_gc -overlay $R/.work/ov/gc/ov.json -o $R/.work/bin/check_verif_gc ./cmd/check || exit 1
go run ./cmd/rewrite -out $R/.work/ov/time time >/dev/null && go build -tags verif_time -overlay $R/.work/ov/time/ov.json -o $R/.work/bin/check_verif_time ./cmd/check || exit 1
echo "setup ok"
