#!/bin/sh
# Builds the harness and pre-builds the tagged / instrumented worker binaries (warms the Go build cache).
export GOFLAGS=-mod=mod GOPROXY=off
unset GOSUMDB
mkdir -p /verif/.work/bin /verif/evidence /verif/replays
cd /verif/mc || exit 1
go build -o /verif/.work/bin/check ./cmd/check || exit 1
for tags in ark_tiny ark_debug ark_tiny,ark_debug; do
  go build -tags "$tags" -o "/verif/.work/bin/check_$(echo $tags | tr , _)" ./cmd/check || exit 1
done
# instrumented builds (overlays generated from the current /repo sources)
go run ./cmd/rewrite -out /verif/.work/ov/sync sync >/dev/null && go build -race -tags verif_sched -overlay /verif/.work/ov/sync/ov.json -o /verif/.work/bin/c13w ./c13w || exit 1
go run ./cmd/rewrite -out /verif/.work/ov/maps maprange >/dev/null && go build -tags verif_maps -overlay /verif/.work/ov/maps/ov.json -o /verif/.work/bin/check_verif_maps ./cmd/check || exit 1
go run ./cmd/rewrite -out /verif/.work/ov/gc gc >/dev/null && go build -tags verif_gc -overlay /verif/.work/ov/gc/ov.json -o /verif/.work/bin/check_verif_gc ./cmd/check || exit 1
go run ./cmd/rewrite -out /verif/.work/ov/time time >/dev/null && go build -tags verif_time -overlay /verif/.work/ov/time/ov.json -o /verif/.work/bin/check_verif_time ./cmd/check || exit 1
echo "setup ok"
