#!/bin/sh
# usage: $R/run.sh <Cxx> <quick|thorough> [extra check args]
# Rebuilds the harness against the current /repo working tree, then runs the check.
R="${VERIF_ROOT:-/verif}"
export GOFLAGS=-mod=mod GOPROXY=off
unset GOSUMDB
id="$1"; tier="${2:-${VERIF_TIER:-quick}}"; shift; shift 2>/dev/null
mkdir -p $R/.work/bin $R/evidence $R/replays
cd $R/mc || exit 2
if ! go build -o $R/.work/bin/check ./cmd/check 2>$R/.work/build.log; then
  echo "harness build failed (no verdict):"; tail -20 $R/.work/build.log; exit 2
fi
exec $R/.work/bin/check "$id" --tier "$tier" "$@"
