#!/bin/sh
# usage: /verif/run.sh <Cxx> <quick|thorough> [extra check args]
# Rebuilds the harness against the current /repo working tree, then runs the check.
export GOFLAGS=-mod=mod GOPROXY=off
unset GOSUMDB
id="$1"; tier="${2:-${VERIF_TIER:-quick}}"; shift; shift 2>/dev/null
mkdir -p /verif/.work/bin /verif/evidence /verif/replays
cd /verif/mc || exit 2
if ! go build -o /verif/.work/bin/check ./cmd/check 2>/verif/.work/build.log; then
  echo "harness build failed (no verdict):"; tail -20 /verif/.work/build.log; exit 2
fi
exec /verif/.work/bin/check "$id" --tier "$tier" "$@"
